"""C10 — common point unit keeps every input integral and non-negative.

States = multisets of point units (pairs, triples, 4-lists in thorough); transitions = every
permutation/repetition/nesting of CommonPointUnitT over a state plus, per input, the conversion of
three probe points (0, 1, 7) into the common point unit, from which the implementation's affine map
x -> a*x + b is recovered.  Oracle: exact rational scales/origins (vf/model.py); the statement does
not fix which subdivision is chosen, so only integrality/non-negativity/truth of the map, symmetry
and "is an input when an input matches" are demanded.
"""
import itertools
import os
from fractions import Fraction as Fr

from .. import core, model, psx
from ..model import LIB_BY_STEM as U
from ..sweep34 import cflags

LEVEL = "model_checking"

PREAMBLE_T = r'''
namespace gen {
struct PA : decltype(au::Kelvins{} * au::mag<3>() / au::mag<7>()) { static constexpr auto origin() { return (au::kelvins / au::mag<4>())(5); } };
struct PB : au::Kelvins { static constexpr auto origin() { return (au::kelvins / au::mag<6>())(-7); } };
struct PC : decltype(au::Kelvins{} * au::mag<2>() / au::mag<5>()) { static constexpr auto origin() { return au::centi(au::kelvins)(27315); } };
struct PD : decltype(au::Kelvins{} * au::mag<5>() / au::mag<9>()) { static constexpr auto origin() { return (au::kelvins * au::mag<5>() / au::mag<27>())(1); } };
struct PE : decltype(au::Kelvins{} * au::mag<1000>() / au::mag<999>()) {};
struct PF : decltype(au::Kelvins{} * au::mag<3>() / au::mag<7>()) { static constexpr auto origin() { return (au::kelvins / au::mag<6>())(-7); } };
struct PG : decltype(au::Kelvins{} * au::mag<2>() / au::mag<5>()) { static constexpr auto origin() { return (au::kelvins / au::mag<4>())(5); } };
struct PH : au::Kelvins { static constexpr auto origin() { return (au::kelvins / au::mag<4>())(5); } };
// origins written in different units whose raw numbers order the other way round than the origins themselves
struct PI : decltype(au::Kelvins{} / au::mag<2>()) { static constexpr auto origin() { return au::milli(au::kelvins)(5000); } };   // 5 K, raw 5000
struct PJ : decltype(au::Kelvins{} * au::mag<2>()) { static constexpr auto origin() { return au::kelvins(7); } };                 // 7 K, raw 7
// the Celsius origin (273.15 K) written in other units than Celsius writes it in (tie-break arm of CommonOrigin)
struct PK : au::Kelvins { static constexpr auto origin() { return au::milli(au::kelvins)(273150); } };
struct PL : decltype(au::Kelvins{} * au::mag<3>() / au::mag<7>()) { static constexpr auto origin() { return (au::kelvins / au::mag<20>())(5463); } };
// origins written in the same unit and rep as the Celsius origin (centi-kelvins, int) but with other values: equal origin
// *types* must not be taken for equal origins
struct PM : au::Kelvins { static constexpr auto origin() { return au::centi(au::kelvins)(1000); } };                                   // 10 K
struct PN : decltype(au::Kelvins{} / au::mag<100>()) { static constexpr auto origin() { return au::centi(au::kelvins)(27316); } };     // 273.16 K, scale 1/100
// a *named* unit of scale 1/1000 K whose origin (the Fahrenheit one) lies between those of equal-scale anonymous units
struct FmK : decltype(au::Fahrenheit{} * au::mag<9>() / au::mag<5000>()) {};
%(GEN2)s
}
namespace c10 {
inline std::string origin_json(au::Zero) { return "{\"v\":0,\"mag\":[]}"; }
template <typename Un, typename R>
std::string origin_json(au::Quantity<Un, R> q) {
    return "{\"v\":" + std::to_string(static_cast<long long>(q.in(Un{}))) + ",\"mag\":" +
           vf::MagJson<au::detail::MagT<Un>>::get() + "}";
}
template <typename Ui, typename C>
std::string probe_json() {
    const long long v0 = au::make_quantity_point<Ui>(0LL).template coerce_in<long long>(C{});
    const long long v1 = au::make_quantity_point<Ui>(1LL).template coerce_in<long long>(C{});
    const long long v7 = au::make_quantity_point<Ui>(7LL).template coerce_in<long long>(C{});
    return "[" + std::to_string(v0) + "," + std::to_string(v1) + "," + std::to_string(v7) + "]";
}
// the same three probe points in an unsigned rep T (source and target rep): the statement promises unsigned reps stay exact
template <typename T, typename Ui, typename C>
std::string probe_json_u() {
    const T v0 = au::make_quantity_point<Ui>(T{0}).template coerce_in<T>(C{});
    const T v1 = au::make_quantity_point<Ui>(T{1}).template coerce_in<T>(C{});
    const T v7 = au::make_quantity_point<Ui>(T{7}).template coerce_in<T>(C{});
    return "[" + std::to_string(v0) + "," + std::to_string(v1) + "," + std::to_string(v7) + "]";
}
}
'''

KELVIN_DIM = model.d(TH=1)
INT_MAX, I64_MAX, U32_MAX = 2 ** 31 - 1, 2 ** 63 - 1, 2 ** 32 - 1


def pt(name, cpp, scale, origin, orep, named=True):
    """orep = (unit in kelvins, integer value) of the origin as the unit's origin() member writes it; None = no member."""
    u = model.Unit(name, cpp, KELVIN_DIM, model.mag_of_fraction(scale), origin, None, named=named)
    u.orep = orep
    assert (orep is None and origin == 0) or Fr(orep[0]) * orep[1] == origin, name
    return u


def fgcd(a, b):
    import math
    return Fr(math.gcd(a.numerator * b.denominator, b.numerator * a.denominator), a.denominator * b.denominator)


# ---- generated family G0..G(n-1): an enumerated lattice over three small alphabets (no sampling).  Unit n takes
# scale S[n mod |S|], origin unit O[(3n + n div |S|) mod |O|], origin number K[(5n + n div |O|) mod |K|]; a, b, c, d <= 1000, |k| <= 50.
G_SCALES = [Fr(7, 11), Fr(13, 8), Fr(997, 1000), Fr(121, 49), Fr(1, 1000), Fr(999, 1000), Fr(210, 143), Fr(64, 81),
            Fr(991, 997), Fr(1000, 7), Fr(3, 1000), Fr(1)]
G_OUNITS = [Fr(1), Fr(1, 4), Fr(1, 6), Fr(1, 100), Fr(1, 1000), Fr(5, 27), Fr(7, 11), Fr(13, 1000), Fr(1, 997), Fr(3, 7), Fr(8, 13)]
G_KS = [-50, -7, -1, 1, 3, 50, 0]
N_GEN2 = 36
N_GEN2_QUICK = 16          # quick tier uses G0..G15
N_GEN2_TRIPLES = 12        # thorough: all triples over G0..G11


def gen2():
    out, cpp, seen = [], [], set()
    for n in range(N_GEN2):
        s = G_SCALES[n % len(G_SCALES)]
        ou = G_OUNITS[(3 * n + n // len(G_SCALES)) % len(G_OUNITS)]
        k = G_KS[(5 * n + n // len(G_OUNITS)) % len(G_KS)]
        if (s, ou * k) in seen:
            continue
        seen.add((s, ou * k))
        mg = lambda f: "".join([" * au::mag<%d>()" % f.numerator if f.numerator != 1 else "",
                                " / au::mag<%d>()" % f.denominator if f.denominator != 1 else ""])
        cpp.append("struct G%d : decltype(au::Kelvins{}%s) { static constexpr auto origin() { return (au::kelvins%s)(%d); } };"
                   % (n, mg(s), mg(ou), k))
        out.append(pt("G%d" % n, "gen::G%d" % n, s, ou * k, (ou, k)))
    return out, "\n".join(cpp)


GEN2, GEN2_CPP = gen2()
PREAMBLE = PREAMBLE_T.replace("%(GEN2)s", GEN2_CPP)


def alphabet(tier):
    P = {p[0]: p for p in model.ALL_PREFIXES}
    K, C, F = U["kelvins"], U["celsius"], U["fahrenheit"]
    lib = [K, C, F, model.prefixed(P["Milli"], K), model.prefixed(P["Centi"], C), model.prefixed(P["Kilo"], K),
           model.prefixed(P["Milli"], F), model.prefixed(P["Milli"], C), model.prefixed(P["Kilo"], C)]
    CK, CR = Fr(1, 100), Fr(1, 180)          # centi-kelvins, centi-rankines
    for u in lib:
        u.orep = None if u.origin == 0 else (CK, 27315) if u.origin == Fr(27315, 100) else (CR, 45967)
        assert u.orep is None or u.orep[0] * u.orep[1] == u.origin
    gen = [pt("PA", "gen::PA", Fr(3, 7), Fr(5, 4), (Fr(1, 4), 5)), pt("PB", "gen::PB", 1, Fr(-7, 6), (Fr(1, 6), -7)),
           pt("PC", "gen::PC", Fr(2, 5), Fr(27315, 100), (CK, 27315)), pt("PD", "gen::PD", Fr(5, 9), Fr(5, 27), (Fr(5, 27), 1)),
           pt("PE", "gen::PE", Fr(1000, 999), 0, None), pt("PF", "gen::PF", Fr(3, 7), Fr(-7, 6), (Fr(1, 6), -7)),
           pt("PG", "gen::PG", Fr(2, 5), Fr(5, 4), (Fr(1, 4), 5)), pt("PH", "gen::PH", 1, Fr(5, 4), (Fr(1, 4), 5)),
           pt("PI", "gen::PI", Fr(1, 2), 5, (Fr(1, 1000), 5000)), pt("PJ", "gen::PJ", 2, 7, (Fr(1), 7))]
    # special units: equal origins written in different units (tie-break arm of CommonOrigin) and anonymous units
    # that are point-equivalent to a library unit (distinct types with the same scale and origin)
    special = [pt("PK", "gen::PK", 1, Fr(27315, 100), (Fr(1, 1000), 273150)),
               pt("PL", "gen::PL", Fr(3, 7), Fr(27315, 100), (Fr(1, 20), 5463)),
               pt("K*1000", "decltype(au::Kelvins{} * au::mag<1000>())", 1000, 0, None, named=False),
               pt("cC*100", "decltype(au::Centi<au::Celsius>{} * au::mag<100>())", 1, Fr(27315, 100), (CK, 27315), named=False)]
    # equal-scale family (all 1/1000 K): anonymous scaled units with different scale factors and origins, and named units
    # whose origins lie between them -- the ordering of point units must stay a strict total order across these kinds
    cyc = [pt("R*9/5000", "decltype(au::Rankines{} * au::mag<9>() / au::mag<5000>())", Fr(1, 1000), 0, None, named=False),
           pt("FmK", "gen::FmK", Fr(1, 1000), Fr(45967, 180), (CR, 45967)),
           pt("C/1000", "decltype(au::Celsius{} / au::mag<1000>())", Fr(1, 1000), Fr(27315, 100), (CK, 27315), named=False),
           pt("K/1000", "decltype(au::Kelvins{} / au::mag<1000>())", Fr(1, 1000), 0, None, named=False),
           pt("F*9/5000", "decltype(au::Fahrenheit{} * au::mag<9>() / au::mag<5000>())", Fr(1, 1000), Fr(45967, 180), (CR, 45967), named=False)]
    sameotype = [pt("PM", "gen::PM", 1, 10, (CK, 1000)), pt("PN", "gen::PN", Fr(1, 100), Fr(27316, 100), (CK, 27316))]
    if tier == "quick":
        main = lib[:6] + [lib[6], lib[8]] + gen[:6] + gen[8:]
    else:
        main = lib + gen
    return main, lib[:6], special + cyc + sameotype, GEN2


def build_lists(tier, main, lib6, special, g2):
    """Every list is a sorted tuple of indices into `allu`; enumeration is complete over the stated families."""
    allu = main + special + g2
    ix = {u.cpp: i for i, u in enumerate(allu)}
    L = set()
    l6 = [ix[u.cpp] for u in lib6]
    ms = list(range(len(main) + len(special)))
    nq = N_GEN2_QUICK if tier == "quick" else len(g2)
    g = [ix[u.cpp] for u in g2[:nq]]
    m = len(g)
    L |= {(i,) for i in ms + g}                                               # singletons
    L |= set(itertools.combinations(ms, 2))                                   # all pairs over main + special
    L |= set(itertools.combinations(g, 2))                                    # all pairs of generated units
    L |= {tuple(sorted((gi, a))) for gi in g for a in (l6[:3] if tier == "quick" else l6)}   # generated x K/C/F (thorough: x 6 library units)
    L |= set(itertools.combinations(range(len(main)), 3))                     # all triples over the main alphabet
    for s in special:                                                         # special x pairs of library units
        L |= {tuple(sorted((ix[s.cpp],) + c)) for c in itertools.combinations(l6, 2)}
    L |= {tuple(sorted(ix[s.cpp] for s in c)) for c in itertools.combinations(special, 3)}
    for (d1, d2) in ((1, 2), (2, 5), (7, 13)):                                # three cyclic difference patterns of triples
        L |= {tuple(sorted({g[i], g[(i + d1) % m], g[(i + d2) % m]})) for i in range(m)}
    for a, b in itertools.combinations(l6[:3], 2):                            # generated x two of K/C/F
        L |= {tuple(sorted((gi, a, b))) for gi in g}
    if tier != "quick":
        L |= {tuple(sorted(c)) for c in itertools.combinations(g[:N_GEN2_TRIPLES], 3)}
        for a, b in itertools.combinations(l6, 2):
            L |= {tuple(sorted((gi, a, b))) for gi in g}
        L |= set(itertools.combinations(sorted(l6), 4))
        L |= {tuple(sorted((ix[s.cpp], ix[t.cpp], a))) for s, t in itertools.combinations(special, 2) for a in range(len(main))}
    L = {l for l in L if len(set(l)) == len(l)}
    lists = [[allu[i] for i in l] for l in sorted(L, key=lambda l: (len(l), l))]
    return allu, [l for l in lists if not model.ordering_conflict(l)]


def pol(k, rep_max):
    return k == 1 or 2147 * k <= rep_max


def predict(us):
    """Model of what the statement lets the library refuse (origins are Quantity<., int>: comparing / subtracting two of them
    goes through the implicit-conversion policy and must not overflow int in a constant expression), plus the exact
    ranges of the probe computations.  Returns (reason-or-None for the long long/uint64 probes, u32_ok, model scale, model origin)."""
    oc = min(u.origin for u in us)
    reason = None
    reps = [u.orep for u in us if u.orep is not None]
    for i in range(len(reps)):
        for j in range(i + 1, len(reps)):
            (ui, vi), (uj, vj) = reps[i], reps[j]
            g = fgcd(ui, uj)
            ki, kj = ui / g, uj / g
            if not (pol(ki, INT_MAX) and pol(kj, INT_MAX)):
                reason = reason or "origin comparison outside the implicit-conversion policy for int"
            elif max(abs(vi * ki), abs(vj * kj), abs(vi * ki - vj * kj)) > INT_MAX:
                reason = reason or "origin difference not representable in int"
    # candidates for the unit the common origin is written in (ties: the statement does not say which one wins)
    cands = sorted({u.orep[0] for u in us if u.orep is not None and u.origin == oc})
    tie = len(cands) > 1
    disp_units = []
    for u in us:
        if u.origin == oc:
            continue
        for cu in (cands or [None]):
            disp_units.append((u, u.orep[0] if cu is None else fgcd(u.orep[0], cu)) if u.orep is not None else (u, cu))
    scales = [model.mag_fraction(u.mag) for u in us]
    sc = scales[0]
    for x in scales[1:] + [d for _, d in disp_units]:
        sc = fgcd(sc, x)
    u32 = not tie and reason is None
    for u in us:
        s = model.mag_fraction(u.mag)
        a, b = s / sc, (u.origin - oc) / sc
        if a.denominator != 1 or b.denominator != 1:
            return reason or "model: common unit does not divide (cannot happen)", False, sc, oc
        if 7 * a + b > I64_MAX:
            reason = reason or "probe value 7a+b not representable in long long"
        if 7 * a + b > U32_MAX:
            u32 = False
        for uu, du in disp_units:
            if uu is not u:
                continue
            cu = fgcd(s, du)
            kx, kd = s / cu, du / cu
            if not (pol(kx, I64_MAX) and pol(kd, I64_MAX)):
                reason = reason or "point conversion outside the implicit-conversion policy for long long"
            if not (pol(kx, U32_MAX) and pol(kd, U32_MAX)) or cu / sc > U32_MAX:
                u32 = False
    return reason, u32, sc, oc


U32_OFF = 10 ** 6
CONTROL = 10 ** 7


def check(run):
    tier = run.tier
    main, lib6, special, g2 = alphabet(tier)
    units, lists = build_lists(tier, main, lib6, special, g2)
    recs, meta = [], {}
    n_trans = 0
    pred_out = {}
    for rid, us in enumerate(lists):
        names = [u.cpp for u in us]
        size = len(us)
        C = "au::CommonPointUnitT<%s>" % ", ".join(names)
        perms = list(itertools.permutations(names))
        if size == 4:
            perms = perms[::2]
        variants = ["au::CommonPointUnitT<%s>" % ", ".join(p) for p in perms]
        # repetitions: <..., first>, <last, ..., first>, <first, first, rest...>, <..., last, last>
        variants.append("au::CommonPointUnitT<%s>" % ", ".join(names + [names[0]]))
        variants.append("au::CommonPointUnitT<%s>" % ", ".join([names[-1]] + names + names[:1]))
        variants.append("au::CommonPointUnitT<%s>" % ", ".join(names[:1] * 2 + names[1:]))
        variants.append("au::CommonPointUnitT<%s>" % ", ".join(names + names[-1:] * 2))
        variants.append("decltype(au::common_point_unit(%s))" % ", ".join(n + "{}" for n in reversed(names)))
        variants.append("au::AssociatedUnitForPointsT<decltype(au::make_common_point(%s))>"
                        % ", ".join("au::QuantityPointMaker<%s>{}" % n for n in names))
        nests = []   # nesting is not part of C10's statement: observed and counted, never judged
        for k in range(1, size):
            nests.append("au::CommonPointUnitT<au::CommonPointUnitT<%s>, %s>" % (", ".join(names[:k]), ", ".join(names[k:])))
            nests.append("au::CommonPointUnitT<%s, au::CommonPointUnitT<%s>>" % (", ".join(names[:k]), ", ".join(names[k:])))
        reason, u32, sc_m, oc_m = predict(us)
        if tier == "quick" and size == 3 and all(u in main for u in us):
            u32 = False          # quick: uint32_t probes for singletons, pairs and every triple with a special/generated unit
        stm = ['using C = %s;' % C, 'vf_kv("u", "{" + vf::unit_json<C>() + "}");',
               'vf_kv("origin", c10::origin_json(au::origin_displacement(au::Kelvins{}, C{})));',
               '{ const bool p[] = {%s}; long bad = -1; for (long i = 0; i < %d; ++i) if (!p[i] && bad < 0) bad = i; vf_i("perm_bad", bad); }'
               % (", ".join("std::is_same<%s, C>::value" % v for v in variants), len(variants)),
               ('{ const bool p[] = {%s}; long n = 0; for (long i = 0; i < %d; ++i) n += !p[i]; vf_i("nest_differs", n); }'
                % (", ".join("std::is_same<%s, C>::value" % v for v in nests), len(nests))) if nests else 'vf_i("nest_differs", 0);',
               '{ const bool p[] = {%s}; long hit = -1; for (long i = 0; i < %d; ++i) if (p[i] && hit < 0) hit = i; vf_i("same_as_input", hit); }'
               % (", ".join("std::is_same<%s, C>::value" % n for n in names), size),
               '{ const std::string r[] = {%s}; std::string s = "["; for (long i = 0; i < %d; ++i) { if (i) s += ","; s += r[i]; } vf_kv("maps", s + "]"); }'
               % (", ".join("c10::probe_json<%s, C>()" % n for n in names), size),
               '{ const std::string r[] = {%s}; std::string s = "["; for (long i = 0; i < %d; ++i) { if (i) s += ","; s += r[i]; } vf_kv("maps_u64", s + "]"); }'
               % (", ".join("c10::probe_json_u<unsigned long long, %s, C>()" % n for n in names), size)]
        recs.append((rid, ["{"] + stm + ["}"]))
        meta[rid] = {"units": us, "variants": variants, "reason": reason, "u32": u32, "sc_m": sc_m, "oc_m": oc_m}
        if reason:
            pred_out[reason] = pred_out.get(reason, 0) + 1
        if u32:
            recs.append((rid + U32_OFF, ["{", 'using C = %s;' % C,
                                         '{ const std::string r[] = {%s}; std::string s = "["; for (long i = 0; i < %d; ++i) { if (i) s += ","; s += r[i]; } vf_kv("maps_u32", s + "]"); }'
                                         % (", ".join("c10::probe_json_u<std::uint32_t, %s, C>()" % n for n in names), size), "}"]))
        n_trans += len(variants) + 2 * size + (size if u32 else 0)
    # control record: uses the harness but no common point unit; if it does not compile the build environment is broken
    recs.append((CONTROL, ['vf_kv("u", "{" + vf::unit_json<au::Kelvins>() + "}");',
                           'vf_kv("origin", c10::origin_json(au::origin_displacement(au::Kelvins{}, au::Celsius{})));']))
    cfgs = core.CORNERS if tier == "quick" else core.CFG6
    ood, checked, nest_differs = {}, 0, 0
    cnt = {"not_compiling_violations": 0, "u32_lists_judged": 0, "u32_not_compiling_outside_model_scale_not_judged": 0,
           "maps_not_judged_value_out_of_range": 0, "common_scale_differs_from_model_gcd": 0, "tie_lists": 0,
           "lists_with_point_equivalent_inputs": 0, "result_is_an_input": 0}
    shown = {}
    n_lists_cut = 0
    for cfg in cfgs:
        if run.time_left() < 120:
            n_lists_cut += 1
            continue
        res, failed = psx.run_dump(cfg, recs, os.path.join(run.wd, cfg.name), "c10", PREAMBLE, flags=cflags(cfg),
                                   chunk=max(8, min(40, len(recs) // (core.NCPU * 2) + 1)))   # small TUs: a failing TU is bisected
        if CONTROL not in res:
            raise core.InfraError("C10 control record (no common point unit involved) does not build under %s: %s"
                                  % (cfg, failed.get(CONTROL, "")[:300]))

        def viol(kind, desc, what, r, o, cap=60):
            key = "C10:%s:%s" % (kind, desc)
            shown[kind] = shown.get(kind, 0) + 1
            rp = None
            if shown[kind] <= cap and run.match_known(key) is None:
                rp = run.write_replay(key, {"kind": "program", "config": str(cfg), "units": [u.cpp for u in meta[r % U32_OFF]["units"]],
                                            "stmts": [s for (i, s) in recs if i == r][0], "observed": o, "what": what})
            run.violation(key, "%s: %s" % (cfg, what), rp)
        for r, diag in sorted(failed.items()):
            m = meta[r % U32_OFF]
            desc = ",".join(u.name for u in m["units"])
            if r >= U32_OFF:
                if (r - U32_OFF) in res and model.mag_fraction(model.mag_from_readout(res[r - U32_OFF]["u"]["mag"])) == m["sc_m"]:
                    cnt["not_compiling_violations"] += 1
                    viol("does-not-compile-uint32", desc, "converting uint32_t points of (%s) to their common point unit does not compile "
                         "although every factor is inside the implicit-conversion policy for uint32_t: %s" % (desc, diag[:200]), r, None)
                else:
                    cnt["u32_not_compiling_outside_model_scale_not_judged"] += 1
                continue
            if m["reason"] is None:
                cnt["not_compiling_violations"] += 1
                viol("does-not-compile", desc, "CommonPointUnitT / conversion to the common point unit of (%s) does not compile although all "
                     "origin arithmetic is inside int and the implicit-conversion policy: %s" % (desc, diag[:200]), r, None)
            else:
                ood.setdefault(str(cfg), []).append({"list": [u.name for u in m["units"]], "reason": m["reason"], "diag": diag[:200]})
        for r, o in sorted(res.items()):
            if r >= U32_OFF:
                continue
            m = meta[r]
            us = m["units"]
            desc = ",".join(u.name for u in us)
            checked += 1
            nest_differs += o.get("nest_differs", 0)
            scale_c = model.mag_from_readout(o["u"]["mag"])
            if not model.mag_is_rational(scale_c):
                viol("irrational-scale", desc, "common point unit of (%s) has an irrational scale although all inputs are rational" % desc, r, o)
                continue
            sc = model.mag_fraction(scale_c)
            oc = Fr(o["origin"]["v"]) * model.mag_fraction(model.mag_from_readout(o["origin"]["mag"]))
            cnt["common_scale_differs_from_model_gcd"] += sc != m["sc_m"]
            if o["perm_bad"] >= 0:
                viol("permutation", desc, "CommonPointUnitT of (%s) differs for %s" % (desc, m["variants"][o["perm_bad"]]), r, o)
            o32 = res.get(r + U32_OFF) if sc == m["sc_m"] else None
            cnt["u32_lists_judged"] += o32 is not None
            for i, u in enumerate(us):
                si = model.mag_fraction(u.mag)
                ta, tb = si / sc, (u.origin - oc) / sc
                integral = ta.denominator == 1 and tb.denominator == 1
                if not integral:
                    viol("not-integral", desc, "exact map %s -> common(%s) is x*%s + %s for the reported scale %s / origin %s: not integral"
                         % (u.name, desc, ta, tb, sc, oc), r, o)
                if ta <= 0 or tb < 0:
                    viol("sign", desc, "exact map %s -> common(%s) is x*%s + %s for the reported scale %s / origin %s: factor must be "
                         "positive, offset non-negative" % (u.name, desc, ta, tb, sc, oc), r, o)
                for fld, src, hi in (("maps", o, I64_MAX), ("maps_u64", o, 2 ** 64 - 1), ("maps_u32", o32, U32_MAX)):
                    if src is None:
                        continue
                    v0, v1, v7 = src[fld][i]
                    if integral and ta > 0 and tb >= 0 and 7 * ta + tb > hi:
                        cnt["maps_not_judged_value_out_of_range"] += 1      # the probe computation overflows: outside the statement
                        continue
                    a, b = v1 - v0, v0
                    if v7 != 7 * a + b:
                        viol("nonlinear", desc, "%s: conversion %s -> common(%s) maps 0,1,7 to %d,%d,%d (not affine)" % (fld, u.name, desc, v0, v1, v7), r, o)
                        continue
                    if a <= 0 or b < 0:
                        viol("sign", desc, "%s: conversion %s -> common(%s) is x*%d + %d: factor must be positive, offset non-negative"
                             % (fld, u.name, desc, a, b), r, o)
                    if integral and (a, b) != (int(ta), int(tb)):
                        viol("wrong-map", desc, "%s: conversion %s -> common(%s) computes x*%d + %d but the exact affine map is x*%s + %s"
                             % (fld, u.name, desc, a, b, ta, tb), r, o)
            has = [i for i, u in enumerate(us) if model.mag_fraction(u.mag) == sc and u.origin == oc]
            cnt["lists_with_point_equivalent_inputs"] += len(has) > 1
            cnt["result_is_an_input"] += o["same_as_input"] >= 0
            cnt["tie_lists"] += len({u.orep[0] for u in us if u.orep is not None and u.origin == min(x.origin for x in us)}) > 1
            if has and o["same_as_input"] < 0:
                viol("not-an-input", desc, "input %s already has the common scale %s and origin %s but the result is a different type" % (us[has[0]].name, sc, oc), r, o)
            if o["same_as_input"] >= 0 and o["same_as_input"] not in has:
                viol("wrong-input", desc, "common point unit of (%s) is input %s which does not have the reported scale/origin" % (desc, us[o["same_as_input"]].name), r, o)
    n_main = len(lists)
    cfgs_run = len(cfgs) - n_lists_cut
    if cfgs_run == 0:
        raise core.InfraError("deadline reached before any configuration ran")
    if checked + cnt["not_compiling_violations"] < 0.8 * n_main * cfgs_run:
        raise core.InfraError("vacuity guard: only %d of %d lists compiled (%s)" % (checked, n_main * cfgs_run, list(ood.values())[:1]))
    sizes = {k: sum(1 for l in lists if len(l) == k) for k in (1, 2, 3, 4)}
    run.cov.update({
        "states": len(lists), "transitions": n_trans, "traces_validated_against_impl": n_trans * cfgs_run,
        "lists": len(lists), "lists_by_size": sizes, "lists_checked": checked,
        "lists_predicted_outside_statement": pred_out,
        "out_of_domain": sum(len(v) for v in ood.values()),
        "nested_forms_with_a_different_type_not_judged": nest_differs,
        "out_of_domain_samples": {k: v[:3] for k, v in ood.items()},
        "lists_with_uint32_probes": sum(1 for m in meta.values() if m["u32"]),
        "alphabet_main": [u.name for u in main], "alphabet_special": [u.name for u in special],
        "alphabet_generated": [{"name": u.name, "scale": str(model.mag_fraction(u.mag)), "origin": "%s x %s K" % (u.orep[1], u.orep[0])} for u in g2[:N_GEN2_QUICK if tier == "quick" else len(g2)]],
        "configs": [str(c) for c in cfgs[:cfgs_run]], "configs_cut_by_deadline": n_lists_cut,
        "exhaustive": n_lists_cut == 0,
        "exhaustive_note": "complete over the enumerated families: all singletons and all pairs over main+special+generated units; all triples "
                           "over the main alphabet; special x pairs of the 6 library units; generated units: "
                           + ("three cyclic difference patterns of triples and generated x pairs of K/C/F" if tier == "quick" else
                              "all triples, generated x pairs of the 6 library units, 4-lists over the 6 library units") +
                           "; all permutations (4-lists: every second) and four repetition forms",
        "samples": [{"list": [u.name for u in meta[r]["units"]]} for r in list(meta)[:: max(1, len(meta) // 5)]][:6],
    })
    run.cov.update(cnt)
    run.assumptions += [
        "scale and origin of the common point unit are read out of the implementation (MagT and origin_displacement from Kelvins); "
        "the oracle demands that the exact affine map for those has a positive integer factor and a non-negative integer offset, and that "
        "coerce_in<long long>, coerce_in<unsigned long long> and (where every factor is inside the uint32_t policy) coerce_in<uint32_t> of "
        "the points 0, 1, 7 compute exactly that map",
        "a list must compile unless the model predicts a refusal the statement allows: two origins (Quantity<.,int>) whose comparison or "
        "difference is outside the implicit-conversion policy or not representable in int, or probe values beyond the probe rep; such lists are "
        "counted in lists_predicted_outside_statement and judged only if they compile",
        "generated units G0..: enumerated lattice over the scale alphabet %s, origin-unit alphabet %s K and origin numbers %s (no sampling)"
        % ([str(x) for x in G_SCALES], [str(x) for x in G_OUNITS], G_KS),
        "uint16_t and narrower probe reps are not used: integral promotion makes their intermediate arithmetic non-modular (C09 judges narrow reps)",
    ]


def replay(path):
    import json
    r = json.load(open(path))
    cfg = [c for c in core.CFG6 if str(c) == r.get("config")]
    cfg = cfg[0] if cfg else core.GXX14
    wd = os.path.join(core.BUILD, "C10", "replay")
    res, failed = psx.run_dump(cfg, [(0, r["stmts"])], wd, "rp", PREAMBLE, flags=cflags(cfg))
    print("observed now:", res.get(0), failed)
    if r.get("observed") is None:
        hit = 0 in failed           # recorded as "does not compile": reproduces iff it still does not compile
    else:
        now = dict(res.get(0) or {})
        now.pop("id", None)
        old = dict(r["observed"])
        old.pop("id", None)
        hit = now == old
    if hit:
        print("VIOLATION property=C10 replay=%s" % path)
        return 1
    return 0
