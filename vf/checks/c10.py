"""C10 — common point unit keeps every input integral and non-negative.

States = multisets of point units (pairs, triples, 4-lists in thorough); transitions = every
permutation/repetition/nesting of CommonPointUnitT over a state plus, per input, the conversion of
three probe points (0, 1, 7) into the common point unit, from which the implementation's affine map
x -> a*x + b is recovered.  Oracle: exact rational scales/origins (vf/model.py); the statement does
not fix which subdivision is chosen, so only integrality/non-negativity/truth of the map, symmetry
and "is an input when an input matches" are demanded.
"""
import itertools
import os
from fractions import Fraction as Fr

from .. import core, model, psx
from ..model import LIB_BY_STEM as U
from ..sweep34 import cflags

LEVEL = "model_checking"

PREAMBLE = r'''
namespace gen {
struct PA : decltype(au::Kelvins{} * au::mag<3>() / au::mag<7>()) { static constexpr auto origin() { return (au::kelvins / au::mag<4>())(5); } };
struct PB : au::Kelvins { static constexpr auto origin() { return (au::kelvins / au::mag<6>())(-7); } };
struct PC : decltype(au::Kelvins{} * au::mag<2>() / au::mag<5>()) { static constexpr auto origin() { return au::centi(au::kelvins)(27315); } };
struct PD : decltype(au::Kelvins{} * au::mag<5>() / au::mag<9>()) { static constexpr auto origin() { return (au::kelvins * au::mag<5>() / au::mag<27>())(1); } };
struct PE : decltype(au::Kelvins{} * au::mag<1000>() / au::mag<999>()) {};
struct PF : decltype(au::Kelvins{} * au::mag<3>() / au::mag<7>()) { static constexpr auto origin() { return (au::kelvins / au::mag<6>())(-7); } };
struct PG : decltype(au::Kelvins{} * au::mag<2>() / au::mag<5>()) { static constexpr auto origin() { return (au::kelvins / au::mag<4>())(5); } };
struct PH : au::Kelvins { static constexpr auto origin() { return (au::kelvins / au::mag<4>())(5); } };
// origins written in different units whose raw numbers order the other way round than the origins themselves
struct PI : decltype(au::Kelvins{} / au::mag<2>()) { static constexpr auto origin() { return au::milli(au::kelvins)(5000); } };   // 5 K, raw 5000
struct PJ : decltype(au::Kelvins{} * au::mag<2>()) { static constexpr auto origin() { return au::kelvins(7); } };                 // 7 K, raw 7
}
namespace c10 {
inline std::string origin_json(au::Zero) { return "{\"v\":0,\"mag\":[]}"; }
template <typename Un, typename R>
std::string origin_json(au::Quantity<Un, R> q) {
    return "{\"v\":" + std::to_string(static_cast<long long>(q.in(Un{}))) + ",\"mag\":" +
           vf::MagJson<au::detail::MagT<Un>>::get() + "}";
}
template <typename Ui, typename C>
std::string probe_json() {
    const long long v0 = au::make_quantity_point<Ui>(0LL).template coerce_in<long long>(C{});
    const long long v1 = au::make_quantity_point<Ui>(1LL).template coerce_in<long long>(C{});
    const long long v7 = au::make_quantity_point<Ui>(7LL).template coerce_in<long long>(C{});
    return "[" + std::to_string(v0) + "," + std::to_string(v1) + "," + std::to_string(v7) + "]";
}
}
'''

KELVIN_DIM = model.d(TH=1)


def pt(name, cpp, scale, origin):
    return model.Unit(name, cpp, KELVIN_DIM, model.mag_of_fraction(scale), origin, None, named=True)


def alphabet(tier):
    P = {p[0]: p for p in model.ALL_PREFIXES}
    K, C, F = U["kelvins"], U["celsius"], U["fahrenheit"]
    lib = [K, C, F, model.prefixed(P["Milli"], K), model.prefixed(P["Centi"], C), model.prefixed(P["Kilo"], K),
           model.prefixed(P["Milli"], F), model.prefixed(P["Milli"], C)]
    gen = [pt("PA", "gen::PA", Fr(3, 7), Fr(5, 4)), pt("PB", "gen::PB", 1, Fr(-7, 6)),
           pt("PC", "gen::PC", Fr(2, 5), Fr(27315, 100)), pt("PD", "gen::PD", Fr(5, 9), Fr(5, 27)),
           pt("PE", "gen::PE", Fr(1000, 999), 0), pt("PF", "gen::PF", Fr(3, 7), Fr(-7, 6)),
           pt("PG", "gen::PG", Fr(2, 5), Fr(5, 4)), pt("PH", "gen::PH", 1, Fr(5, 4))]
    gen += [pt("PI", "gen::PI", Fr(1, 2), 5), pt("PJ", "gen::PJ", 2, 7)]
    lib += [model.prefixed(P["Kilo"], C)]
    if tier == "quick":
        return lib[:6] + [lib[6], lib[8]] + gen[:6] + gen[8:], lib[:6]
    return lib + gen, lib[:6]


def check(run):
    tier = run.tier
    units, lib6 = alphabet(tier)
    lists = []
    for size in (2, 3):
        for combo in itertools.combinations(range(len(units)), size):
            lists.append([units[i] for i in combo])
    if tier == "thorough":
        for combo in itertools.combinations(range(len(lib6)), 4):
            lists.append([lib6[i] for i in combo])
    lists = [l for l in lists if not model.ordering_conflict(l)]
    recs, meta = [], {}
    n_trans = 0
    for rid, us in enumerate(lists):
        names = [u.cpp for u in us]
        size = len(us)
        C = "au::CommonPointUnitT<%s>" % ", ".join(names)
        perms = list(itertools.permutations(names))
        if size == 4:
            perms = perms[::2]
        variants = ["au::CommonPointUnitT<%s>" % ", ".join(p) for p in perms]
        variants.append("au::CommonPointUnitT<%s>" % ", ".join(names + [names[0]]))
        variants.append("au::CommonPointUnitT<%s>" % ", ".join([names[-1]] + names + names[:1]))
        variants.append("decltype(au::common_point_unit(%s))" % ", ".join(n + "{}" for n in reversed(names)))
        variants.append("au::AssociatedUnitForPointsT<decltype(au::make_common_point(%s))>"
                        % ", ".join("au::QuantityPointMaker<%s>{}" % n for n in names))
        nests = []   # nesting is not part of C10's statement: observed and counted, never judged
        for k in range(1, size):
            nests.append("au::CommonPointUnitT<au::CommonPointUnitT<%s>, %s>" % (", ".join(names[:k]), ", ".join(names[k:])))
            nests.append("au::CommonPointUnitT<%s, au::CommonPointUnitT<%s>>" % (", ".join(names[:k]), ", ".join(names[k:])))
        stm = ['using C = %s;' % C, 'vf_kv("u", "{" + vf::unit_json<C>() + "}");',
               'vf_kv("origin", c10::origin_json(au::origin_displacement(au::Kelvins{}, C{})));',
               '{ const bool p[] = {%s}; long bad = -1; for (long i = 0; i < %d; ++i) if (!p[i] && bad < 0) bad = i; vf_i("perm_bad", bad); }'
               % (", ".join("std::is_same<%s, C>::value" % v for v in variants), len(variants)),
               '{ const bool p[] = {%s}; long n = 0; for (long i = 0; i < %d; ++i) n += !p[i]; vf_i("nest_differs", n); }'
               % (", ".join("std::is_same<%s, C>::value" % v for v in nests), len(nests)),
               '{ const bool p[] = {%s}; long hit = -1; for (long i = 0; i < %d; ++i) if (p[i] && hit < 0) hit = i; vf_i("same_as_input", hit); }'
               % (", ".join("std::is_same<%s, C>::value" % n for n in names), size),
               '{ const std::string r[] = {%s}; std::string s = "["; for (long i = 0; i < %d; ++i) { if (i) s += ","; s += r[i]; } vf_kv("maps", s + "]"); }'
               % (", ".join("c10::probe_json<%s, C>()" % n for n in names), size)]
        recs.append((rid, ["{"] + stm + ["}"]))
        meta[rid] = {"units": us, "variants": variants}
        n_trans += len(variants) + size
    cfgs = core.CORNERS if tier == "quick" else core.CFG6
    ood = {}
    checked = 0
    nest_differs = [0]
    for cfg in cfgs:
        res, failed = psx.run_dump(cfg, recs, os.path.join(run.wd, cfg.name), "c10", PREAMBLE, flags=cflags(cfg),
                                   chunk=max(8, len(recs) // (core.NCPU * 2) + 1))
        for r, diag in failed.items():
            ood.setdefault(str(cfg), []).append({"list": [u.name for u in meta[r]["units"]], "diag": diag[:200]})
        for r, o in res.items():
            m = meta[r]
            us = m["units"]
            desc = ",".join(u.name for u in us)
            checked += 1
            nest_differs[0] += o.get("nest_differs", 0)

            def viol(kind, what):
                key = "C10:%s:%s" % (kind, desc)
                run.violation(key, "%s: %s" % (cfg, what),
                              run.write_replay(key, {"kind": "program", "config": str(cfg), "units": [u.cpp for u in us],
                                                     "stmts": recs[r][1], "observed": o}))
            scale_c = model.mag_from_readout(o["u"]["mag"])
            if not model.mag_is_rational(scale_c):
                viol("irrational-scale", "common point unit of (%s) has an irrational scale although all inputs are rational" % desc)
                continue
            sc = model.mag_fraction(scale_c)
            oc = Fr(o["origin"]["v"]) * model.mag_fraction(model.mag_from_readout(o["origin"]["mag"]))
            if o["perm_bad"] >= 0:
                viol("permutation", "CommonPointUnitT of (%s) differs for %s" % (desc, m["variants"][o["perm_bad"]]))
            for u, (v0, v1, v7) in zip(us, o["maps"]):
                a, b = v1 - v0, v0
                si = model.mag_fraction(u.mag)
                if v7 != 7 * a + b:
                    viol("nonlinear", "conversion %s -> common(%s) maps 0,1,7 to %d,%d,%d (not affine)" % (u.name, desc, v0, v1, v7))
                    continue
                ta, tb = si / sc, (u.origin - oc) / sc
                if a <= 0 or b < 0:
                    viol("sign", "conversion %s -> common(%s) is x*%d + %d: factor must be positive, offset non-negative" % (u.name, desc, a, b))
                if ta.denominator != 1 or tb.denominator != 1:
                    viol("not-integral", "exact map %s -> common(%s) is x*%s + %s for the reported scale %s / origin %s: not integral" % (u.name, desc, ta, tb, sc, oc))
                elif (a, b) != (int(ta), int(tb)):
                    viol("wrong-map", "conversion %s -> common(%s) computes x*%d + %d but the exact affine map is x*%s + %s" % (u.name, desc, a, b, ta, tb))
            has = [i for i, u in enumerate(us) if model.mag_fraction(u.mag) == sc and u.origin == oc]
            if has and o["same_as_input"] < 0:
                viol("not-an-input", "input %s already has the common scale %s and origin %s but the result is a different type" % (us[has[0]].name, sc, oc))
            if o["same_as_input"] >= 0 and o["same_as_input"] not in has:
                viol("wrong-input", "common point unit of (%s) is input %s which does not have the reported scale/origin" % (desc, us[o["same_as_input"]].name))
    total = len(recs) * len(cfgs)
    if checked < 0.8 * total:
        raise core.InfraError("vacuity guard: only %d of %d lists compiled (%s)" % (checked, total, list(ood.values())[:1]))
    run.cov.update({
        "states": len(lists) + len(units), "transitions": n_trans, "traces_validated_against_impl": n_trans * len(cfgs),
        "lists": len(lists), "lists_checked": checked, "out_of_domain": sum(len(v) for v in ood.values()),
        "nested_forms_with_a_different_type_not_judged": nest_differs[0],
        "out_of_domain_samples": {k: v[:3] for k, v in ood.items()},
        "alphabet": [u.name for u in units], "configs": [str(c) for c in cfgs], "exhaustive": True,
        "exhaustive_note": "all pairs and triples over the stated alphabet (thorough: + all 4-lists over 6 library point units), all permutations (4-lists: every second)",
        "samples": [{"list": [u.name for u in meta[r]["units"]]} for r in list(meta)[:: max(1, len(meta) // 5)]][:6],
    })
    run.assumptions += ["scale and origin of the common point unit are read out of the implementation (MagT and origin_displacement from Kelvins); "
                        "the oracle demands only that each input's conversion is the exact affine map for those, with positive integer factor and non-negative integer offset",
                        "lists whose CommonPointUnitT does not compile (origin comparison outside the implicit-conversion policy) are out of domain; vacuity guard 80%"]


def replay(path):
    import json
    r = json.load(open(path))
    cfg = [c for c in core.CFG6 if str(c) == r.get("config")]
    cfg = cfg[0] if cfg else core.GXX14
    wd = os.path.join(core.BUILD, "C10", "replay")
    res, failed = psx.run_dump(cfg, [(0, r["stmts"])], wd, "rp", PREAMBLE, flags=cflags(cfg))
    print("observed now:", res.get(0), failed)
    if res.get(0) == r.get("observed"):
        print("VIOLATION property=C10 replay=%s" % path)
        return 1
    return 0
