"""C16 — constants convert exactly or not at all (program-space grid)."""
import os
from fractions import Fraction as Fr

from .. import core, model, psx
from ..core import F3, I8, R11, tmax
from ..model import LIB_BY_STEM as U
from ..sweep34 import cflags
from . import c11
from .c06 import mag_expr

LEVEL = "exploration"

PREAMBLE = '#include "sweep.hh"\n' + c11.PREAMBLE + r'''
namespace c16 {
template <typename T> std::string fmt(T v) { return c11::Fmt<T>::get(v); }
}
'''

J_DIM = model.d(M=1, L=2, T=-2)
W_DIM = model.d(M=1, L=2, T=-3)


def lib_constants():
    ten = lambda e: model.vpow(model.mag_int(10), e)
    mi = model.mag_int
    vm = model.vmul
    return [
        ("SPEED_OF_LIGHT", model.d(L=1, T=-1), mi(299792458)),
        ("AVOGADRO_CONSTANT", model.d(N=-1), vm(mi(602214076), ten(15))),
        ("BOLTZMANN_CONSTANT", model.vdiv(J_DIM, model.d(TH=1)), vm(mi(1380649), ten(-29 + 3))),
        ("CESIUM_HYPERFINE_TRANSITION_FREQUENCY", model.d(T=-1), mi(9192631770)),
        ("ELEMENTARY_CHARGE", model.d(I=1, T=1), vm(mi(1602176634), ten(-28))),
        ("LUMINOUS_EFFICACY_540_TERAHERTZ", model.vdiv(model.d(J=1, ANG=2), W_DIM), model.mag_ratio(683, 1000)),
        ("PLANCK_CONSTANT", model.vmul(J_DIM, model.d(T=1)), vm(mi(662607015), ten(-42 + 3))),
        ("REDUCED_PLANCK_CONSTANT", model.vmul(J_DIM, model.d(T=1)),
         model.vdiv(vm(mi(662607015), ten(-42 + 3)), vm(mi(2), model.MAG_PI))),
        ("STANDARD_GRAVITY", model.d(L=1, T=-2), model.mag_ratio(980665, 100000)),
    ]


def gen_constants():
    m, s = U["meters"], U["seconds"]
    out = []

    def add(name, unit_expr, dim, mag):
        out.append((name, "au::make_constant(%s)" % unit_expr, unit_expr, dim, mag))
    add("k1000m", "au::Meters{} * au::mag<1000>()", m.dim, model.mag_int(1000))
    add("r5_7mps", "au::Meters{} / au::Seconds{} * au::mag<5>() / au::mag<7>()", model.d(L=1, T=-1), model.mag_ratio(5, 7))
    add("bigprimeHz", "au::Hertz{} * au::mag<18446744073709551557u>()", model.d(T=-1), model.mag_int(2 ** 64 - 59))
    add("pi_rad", "au::Radians{} * au::Magnitude<au::Pi>{}", model.d(ANG=1), dict(model.MAG_PI))
    add("sqrt2m", "au::Meters{} * au::root<2>(au::mag<2>())", m.dim, {2: Fr(1, 2)})
    add("i32max_m", "au::Meters{} * au::mag<2147483647>()", m.dim, model.mag_int(2 ** 31 - 1))
    add("i32max1_m", "au::Meters{} * au::mag<2147483648u>()", m.dim, model.mag_int(2 ** 31))
    add("u8max1_s", "au::Seconds{} * au::mag<256>()", s.dim, model.mag_int(256))
    add("tiny_m", "au::Meters{} * au::pow<-46>(au::mag<10>())", m.dim, model.vpow(model.mag_int(10), -46))
    add("huge_m", "au::Meters{} * au::pow<39>(au::mag<10>())", m.dim, model.vpow(model.mag_int(10), 39))
    add("ftlb", "au::Feet{} * au::PoundsForce{}", model.vmul(U["feet"].dim, U["pounds_force"].dim), model.vmul(U["feet"].mag, U["pounds_force"].mag))
    add("one", "au::UnitProductT<>{}", {}, {})
    return out


def targets_for(dim, cmag, tier):
    """Same-dimension target units as (expr, mag)."""
    out = []
    base_expr = None
    dk = model.dim_key(dim)
    # a base unit expression of this dimension built from SI atoms with magnitude 1 (grams for mass)
    names = {model.L: "au::Meters", model.M: "au::Grams", model.T: "au::Seconds", model.I: "au::Amperes", model.TH: "au::Kelvins",
             model.ANG: "au::Radians", model.INFO: "au::Bits", model.N: "au::Moles", model.J: "au::Candelas"}
    parts = []
    for b, e in sorted(dim.items()):
        parts.append("au::pow<%d>(%s{})" % (e.numerator, names[b]))
    base_expr = " * ".join(parts) if parts else "au::UnitProductT<>{}"
    scales = [{}, model.mag_int(1000), model.mag_ratio(1, 1000), model.vpow(model.mag_int(10), 9), model.vpow(model.mag_int(10), -9),
              model.mag_int(3), model.mag_ratio(1, 7), dict(model.MAG_PI), cmag, model.vmul(cmag, model.mag_ratio(1, 127)),
              model.vmul(cmag, model.mag_ratio(1, 128)), model.vmul(cmag, model.mag_ratio(1, 32767)), model.vmul(cmag, model.mag_ratio(1, 32768)),
              model.vmul(cmag, model.mag_ratio(1, 2 ** 31)), model.vmul(cmag, model.mag_ratio(1, 2 ** 32)),
              model.vmul(cmag, model.vpow(model.mag_int(10), -38)), model.vmul(cmag, model.vpow(model.mag_int(10), -39)),
              model.vmul(cmag, model.vpow(model.mag_int(10), 44)), model.vmul(cmag, model.vpow(model.mag_int(10), 46)),
              model.vmul(cmag, model.mag_int(2))]
    if tier == "quick":
        scales = scales[:3] + scales[5:6] + scales[7:12] + scales[13:14] + scales[15:19]
    seen = set()
    for sc in scales:
        k = model.mag_key(sc)
        if k in seen:
            continue
        seen.add(k)
        out.append(("decltype(%s * (%s))" % (base_expr, mag_expr(sc)) if sc else "decltype(%s)" % base_expr, sc))
    return out


def check(run):
    tier = run.tier
    consts = []
    for name, dim, mag in lib_constants():
        consts.append((name, "au::" + name, None, dim, mag, True))
    for name, cexpr, uexpr, dim, mag in gen_constants():
        consts.append((name, cexpr, uexpr, dim, mag, False))
    recs, meta = [], {}
    rid = 0
    probes = []
    for (name, cexpr, uexpr, dim, mag, is_lib) in consts:
        # the constant's own unit against the model (SI definition for library constants)
        recs.append((rid, ['vf_kv("u", "{" + vf::unit_json<au::AssociatedUnitT<std::decay_t<decltype(%s)>>>() + "}");' % cexpr]))
        meta[rid] = {"kind": "unit", "name": name, "dim": dim, "mag": mag}
        rid += 1
        for (texpr, tmag) in targets_for(dim, mag, tier):
            ratio = model.vdiv(mag, tmag)
            stm = ['using C = std::decay_t<decltype(%s)>; using Tg = %s;' % (cexpr, texpr)]
            flags = ", ".join("C::template can_store_value_in<%s>(Tg{})" % t for t in R11)
            stm.append('{ const bool f[] = {%s}; std::string s = "["; for (int i = 0; i < %d; ++i) { if (i) s += ","; s += f[i] ? "1" : "0"; } vf_kv("can", s + "]"); }' % (flags, len(R11)))
            vals = []
            for t in R11:
                verdict, ev = c11.expected_rep(t, ratio)
                if verdict:
                    vals.append('"\\"%s\\":[\\"" + c16::fmt<%s>(C{}.template as<%s>(Tg{}).in(Tg{})) + "\\",\\"" + c16::fmt<%s>(C{}.template in<%s>(Tg{})) + "\\",\\"" '
                                '+ c16::fmt<%s>(au::Quantity<Tg, %s>(C{}).in(Tg{})) + "\\"]"' % (t, t, t, t, t, t, t))
                    probes.append(core.Probe((rid, t, "twin"), "using C = std::decay_t<decltype(%s)>; using Tg = %s; au::Quantity<Tg, %s> q = C{}; (void)q;" % (cexpr, texpr, t),
                                             "accept", {"name": name, "t": t, "ratio": ratio}))
                elif verdict is False:
                    for form, code in (("as", "(void)C{}.template as<%s>(Tg{});" % t), ("in", "(void)C{}.template in<%s>(Tg{});" % t),
                                       ("implicit", "au::Quantity<Tg, %s> q = C{}; (void)q;" % t)):
                        probes.append(core.Probe((rid, t, form), "using C = std::decay_t<decltype(%s)>; using Tg = %s; %s" % (cexpr, texpr, code),
                                                 "reject", {"name": name, "t": t, "ratio": ratio}))
            if vals:
                stm.append('vf_kv("vals", std::string("{") + %s + "}");' % ' + "," + '.join(vals))
            recs.append((rid, ["{"] + stm + ["}"]))
            meta[rid] = {"kind": "cell", "name": name, "ratio": ratio, "target": texpr}
            rid += 1
    # composition: stored number untouched, unit = model
    comp = []
    C0, cd, cm = "au::SPEED_OF_LIGHT", model.d(L=1, T=-1), model.mag_int(299792458)
    items = [
        ("C*float", "%s * 3.5f" % C0, "float", "3.5f", cd, cm), ("float*C", "3.5f * %s" % C0, "float", "3.5f", cd, cm),
        ("C/float", "%s / 3.5f" % C0, "float", "(1.0f / 3.5f)", cd, cm), ("float/C", "3.5f / %s" % C0, "float", "3.5f", model.vinv(cd), model.vinv(cm)),
        ("C*int", "%s * 7" % C0, "int", "7", cd, cm), ("int/C", "7 / %s" % C0, "int", "7", model.vinv(cd), model.vinv(cm)),
        ("C*u8", "%s * uint8_t{200}" % C0, "uint8_t", "uint8_t{200}", cd, cm),
        ("C*q", "%s * au::seconds(7)" % C0, "int", "7", model.vmul(cd, model.d(T=1)), cm),
        ("q*C", "au::seconds(7.25) * %s" % C0, "double", "7.25", model.vmul(cd, model.d(T=1)), cm),
        ("q/C", "au::meters(7L) / %s" % C0, "long", "7L", model.vdiv(model.d(L=1), cd), model.vinv(cm)),
        ("C/q", "%s / au::seconds(8.0f)" % C0, "float", "(1.0f / 8.0f)", model.vdiv(cd, model.d(T=1)), cm),
        ("C/q-int", "%s / au::seconds(int8_t{-3})" % C0, None, None, None, None),
    ]
    for (nm, expr, rep, val, dim, mag) in items:
        if rep is None:
            continue
        stm = ['auto r = %s; using Q = decltype(r);' % expr,
               'vf_b("rep", std::is_same<typename Q::Rep, %s>::value);' % rep,
               'const %s want = %s; vf_b("bits", vf::same_bits(r.in(Q::unit), want));' % (rep, val),
               'vf_kv("u", "{" + vf::unit_json<typename Q::Unit>() + "}");']
        recs.append((rid, ["{"] + stm + ["}"]))
        meta[rid] = {"kind": "comp", "name": nm, "dim": dim, "mag": mag}
        rid += 1
    wrappers = [
        ("C*mag", "%s * au::mag<3>()" % C0, cd, model.vmul(cm, model.mag_int(3))), ("mag*C", "au::mag<3>() * %s" % C0, cd, model.vmul(cm, model.mag_int(3))),
        ("C/mag", "%s / au::mag<3>()" % C0, cd, model.vdiv(cm, model.mag_int(3))), ("mag/C", "au::mag<3>() / %s" % C0, model.vinv(cd), model.vdiv(model.mag_int(3), cm)),
        ("C*maker", "%s * au::seconds" % C0, model.d(L=1), cm), ("maker*C", "au::seconds * %s" % C0, model.d(L=1), cm),
        ("C/maker", "%s / au::meters" % C0, model.d(T=-1), cm), ("maker/C", "au::meters / %s" % C0, model.d(T=1), model.vinv(cm)),
        ("C*singular", "%s * au::second" % C0, model.d(L=1), cm), ("C/singular", "%s / au::meter" % C0, model.d(T=-1), cm),
        ("C*C", "%s * au::PLANCK_CONSTANT" % C0, model.vmul(cd, model.vmul(J_DIM, model.d(T=1))), model.vmul(cm, lib_constants()[6][2])),
        ("C/C", "%s / %s" % (C0, C0), {}, {}), ("C/G", "%s / au::STANDARD_GRAVITY" % C0, model.d(T=1), model.vdiv(cm, model.mag_ratio(980665, 100000))),
    ]
    for (nm, expr, dim, mag) in wrappers:
        recs.append((rid, ['vf_kv("u", "{" + vf::unit_json<au::AssociatedUnitT<std::decay_t<decltype(%s)>>>() + "}");' % expr]))
        meta[rid] = {"kind": "unit", "name": nm, "dim": dim, "mag": mag}
        rid += 1
    if tier == "quick":
        probes = [p for i, p in enumerate(probes) if i % 4 == 0]
    cfgs = core.CORNERS if tier == "quick" else core.CFG6
    evals = 0
    dont_care = 0
    both = {}
    for cfg in cfgs:
        res, failed = psx.run_dump(cfg, recs, os.path.join(run.wd, cfg.name), "c16", PREAMBLE, flags=cflags(cfg),
                                   chunk=max(6, len(recs) // (core.NCPU * 2) + 1))
        for r, diag in failed.items():
            m = meta[r]
            run.violation("C16:does-not-compile:%s:%s" % (m["name"], m.get("target", "")),
                          "%s: %s (%s) does not compile although every value form used is predicted representable: %s" % (cfg, m["name"], m.get("target", m["kind"]), diag),
                          run.write_replay("C16:does-not-compile:%s:%s" % (m["name"], m.get("target", "")), {"kind": "program", "config": str(cfg), "stmts": recs[r][1]}))
        for r, o in res.items():
            m = meta[r]

            def viol(kind, what, t=""):
                key = "C16:%s:%s:%s:%s" % (kind, m["name"], t, model.mag_key(m.get("ratio", {})))
                run.violation(key, "%s: %s" % (cfg, what), run.write_replay(key, {"kind": "program", "config": str(cfg), "stmts": recs[r][1], "observed": o}))
            evals += 1
            if m["kind"] in ("unit", "comp"):
                gd, gm = model.dim_key(model.dim_from_readout(o["u"]["dim"])), model.mag_key(model.mag_from_readout(o["u"]["mag"]))
                if gd != model.dim_key(m["dim"]) or gm != model.mag_key(m["mag"]):
                    viol("unit", "%s has unit dim=%s mag=%s; expected dim=%s mag=%s" % (m["name"], gd, gm, model.dim_key(m["dim"]), model.mag_key(m["mag"])))
                if m["kind"] == "comp" and not (o["rep"] and o["bits"]):
                    viol("stored-number", "%s changed the stored number or its type: %s" % (m["name"], o))
                continue
            for t, can in zip(R11, o["can"]):
                evals += 1
                can = bool(can)
                verdict, ev = c11.expected_rep(t, m["ratio"])
                both.setdefault(t, set()).add(can)
                if verdict is None:
                    dont_care += 1
                    continue
                if can != verdict:
                    viol("can_store_value_in", "%s: can_store_value_in<%s>(%s) is %s but the exact ratio ~2^%.1f is %s" % (
                        m["name"], t, m["target"], can, c11.approx_log2(m["ratio"]), "representable" if verdict else "not representable"), t)
                    continue
                if verdict and t in o.get("vals", {}):
                    for form, val in zip(("as", "in", "implicit"), o["vals"][t]):
                        if t in I8:
                            if ev is not None and int(val) != ev:
                                viol("value", "%s .%s<%s>(%s) = %s, exact %s" % (m["name"], form, t, m["target"], val, ev), t)
                        else:
                            got = c11.parse_hexfloat(val)
                            if got is None or got <= 0 or (ev is not None and abs(got - ev) > 4 * c11.ulp(t, ev)):
                                nulp = float(abs(got - ev) / c11.ulp(t, ev)) if (got is not None and ev is not None) else -1
                                viol("value-off-by-le64ulp" if 0 <= nulp <= 64 else "value", "%s .%s<%s>(%s) = %s differs from the exact ratio by %.3g ulp" % (m["name"], form, t, m["target"], val, nulp), t)
        pres, _ = core.run_probes(cfg, probes, os.path.join(run.wd, "pr_" + cfg.name), "c16p", PREAMBLE, flags=cflags(cfg))
        for p in probes:
            v, diag = pres[p.pid]
            evals += 1
            if v != p.expect:
                key = "C16:%s-%s:%s:%s:%s" % (p.pid[2], v, p.meta["name"], p.meta["t"], model.mag_key(p.meta["ratio"]))
                run.violation(key, "%s: `%s` is %sed; exact ratio is %s" % (cfg, p.code, v, "representable" if p.expect == "accept" else "not representable"),
                              run.write_replay(key, {"kind": "program", "config": str(cfg), "code": p.code, "expected": p.expect, "observed": v}))
    run.cov.update({
        "evaluations": evals, "programs": (len(recs) + len(probes)) * len(cfgs), "constants": len(consts), "cells": sum(1 for m in meta.values() if m["kind"] == "cell"),
        "probes": len(probes), "dont_care": dont_care, "distinct_nontrivial": sum(1 for s in both.values() if len(s) == 2),
        "rule": "9 library constants (units checked against their SI definitions) + 12 generated constants (integer, rational, 2^64-59, pi, sqrt2, compound, type-limit values) "
                "x same-dimension target units whose ratio straddles each type's maximum / minimum x 11 arithmetic types: can_store_value_in read out, as/in/implicit values where "
                "representable, accept/reject probes otherwise; composition with numbers, quantities, magnitudes, makers, singular names and constants must leave the stored number "
                "bit-identical. distinct_nontrivial = number of types with both storable and non-storable cells.",
        "configs": [str(c) for c in cfgs], "exhaustive": True, "exhaustive_note": "the stated finite grid is enumerated completely",
        "samples": [{"constant": m["name"], "target": m["target"]} for m in list(meta.values())[:: max(1, len(meta) // 6)] if m["kind"] == "cell"][:6],
    })
    run.assumptions += ["representability oracle shared with C11 (same don't-care bands)"]


def replay(path):
    import json
    r = json.load(open(path))
    cfg = [c for c in core.CFG6 if str(c) == r.get("config")]
    cfg = cfg[0] if cfg else core.GXX14
    wd = os.path.join(core.BUILD, "C16", "replay")
    if "code" in r:
        res, _ = core.run_probes(cfg, [core.Probe(0, r["code"], r["expected"])], wd, "rp", PREAMBLE, flags=cflags(cfg))
        print("observed:", res[0][0], "expected:", r["expected"])
        if res[0][0] != r["expected"]:
            print("VIOLATION property=C16 replay=%s" % path)
            return 1
        return 0
    res, failed = psx.run_dump(cfg, [(0, r["stmts"])], wd, "rp", PREAMBLE, flags=cflags(cfg))
    print("observed now:", res.get(0), failed)
    if failed or res.get(0) == r.get("observed"):
        print("VIOLATION property=C16 replay=%s" % path)
        return 1
    return 0
