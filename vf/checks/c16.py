"""C16 — constants convert exactly or not at all (program-space grid)."""
import os
from fractions import Fraction as Fr

from .. import core, model, psx
from ..core import F3, I8, R11, tmax
from ..model import LIB_BY_STEM as U
from ..sweep34 import cflags
from . import c11
from .c06 import mag_expr

LEVEL = "exploration"

PREAMBLE = '#include "sweep.hh"\n' + c11.PREAMBLE + r'''
namespace c16 {
template <typename T> std::string fmt(T v) { return c11::Fmt<T>::get(v); }
// implicit conversion in argument position (template arguments given explicitly, so the parameter type is concrete)
template <typename Un, typename R> constexpr R takes(au::Quantity<Un, R> q) { return q.in(Un{}); }
// value bits of an arithmetic object (x87 long double: 10 value bytes, 6 padding bytes)
template <typename T> bool same_value_bits(const T &a, const T &b) {
    return std::memcmp(&a, &b, std::is_same<T, long double>::value ? 10 : sizeof(T)) == 0;
}
// |a - b| <= 1 ulp-ish (or both the same infinity / zero); used for reciprocals only
template <typename T> bool near1(T a, T b) {
    if (a == b) return true;
    const T d = a > b ? a - b : b - a, m = b < 0 ? -b : b;
    return d <= std::numeric_limits<T>::epsilon() * m;
}
// which wrapper family a composition result belongs to
template <typename X> struct Kind { static const char *name() { return "other"; } using Unit = au::AssociatedUnitT<X>; };
template <typename Un, typename R> struct Kind<au::Quantity<Un, R>> { static const char *name() { return "Quantity"; } using Unit = Un; };
template <typename Un> struct Kind<au::Constant<Un>> { static const char *name() { return "Constant"; } using Unit = Un; };
template <typename Un> struct Kind<au::QuantityMaker<Un>> { static const char *name() { return "QuantityMaker"; } using Unit = Un; };
template <typename Un> struct Kind<au::SingularNameFor<Un>> { static const char *name() { return "SingularNameFor"; } using Unit = Un; };
template <typename Un> struct Kind<au::SymbolFor<Un>> { static const char *name() { return "SymbolFor"; } using Unit = Un; };
template <typename X> std::string kind_unit() {
    return std::string("{\"kind\":\"") + Kind<X>::name() + "\"," + vf::unit_json<typename Kind<X>::Unit>() + "}";
}
// operand families the library may or may not offer for Constant (bare unit types, symbols): detect, then read out
template <typename A, typename B, typename = void> struct Mul { static std::string get() { return "null"; } };
template <typename A, typename B>
struct Mul<A, B, vf::void_t<decltype(std::declval<A>() * std::declval<B>())>> {
    static std::string get() { return kind_unit<std::decay_t<decltype(std::declval<A>() * std::declval<B>())>>(); }
};
template <typename A, typename B, typename = void> struct Div { static std::string get() { return "null"; } };
template <typename A, typename B>
struct Div<A, B, vf::void_t<decltype(std::declval<A>() / std::declval<B>())>> {
    static std::string get() { return kind_unit<std::decay_t<decltype(std::declval<A>() / std::declval<B>())>>(); }
};
}
'''

J_DIM = model.d(M=1, L=2, T=-2)
W_DIM = model.d(M=1, L=2, T=-3)
FORMS = ("as", "in", "implicit")
VAL_FORMS = ("as", "in", "direct-init", "copy-init", "argument")
# constants whose every boundary target is enumerated in the quick tier (the others get a rotating quarter)
QUICK_FULL = ("SPEED_OF_LIGHT", "REDUCED_PLANCK_CONSTANT", "r5_7mps", "sqrt2m")
SLOT_CONSTS = ("SPEED_OF_LIGHT", "r5_7mps", "pi_rad")


def ten(e):
    return model.vpow(model.mag_int(10), e)


def lib_constants():
    mi = model.mag_int
    vm = model.vmul
    return [
        ("SPEED_OF_LIGHT", model.d(L=1, T=-1), mi(299792458)),
        ("AVOGADRO_CONSTANT", model.d(N=-1), vm(mi(602214076), ten(15))),
        ("BOLTZMANN_CONSTANT", model.vdiv(J_DIM, model.d(TH=1)), vm(mi(1380649), ten(-29 + 3))),
        ("CESIUM_HYPERFINE_TRANSITION_FREQUENCY", model.d(T=-1), mi(9192631770)),
        ("ELEMENTARY_CHARGE", model.d(I=1, T=1), vm(mi(1602176634), ten(-28))),
        ("LUMINOUS_EFFICACY_540_TERAHERTZ", model.vdiv(model.d(J=1, ANG=2), W_DIM), model.mag_ratio(683, 1000)),
        ("PLANCK_CONSTANT", model.vmul(J_DIM, model.d(T=1)), vm(mi(662607015), ten(-42 + 3))),
        ("REDUCED_PLANCK_CONSTANT", model.vmul(J_DIM, model.d(T=1)),
         model.vdiv(vm(mi(662607015), ten(-42 + 3)), vm(mi(2), model.MAG_PI))),
        ("STANDARD_GRAVITY", model.d(L=1, T=-2), model.mag_ratio(980665, 100000)),
    ]


def gen_constants():
    m, s = U["meters"], U["seconds"]
    out = []

    def add(name, unit_expr, dim, mag):
        out.append((name, "au::make_constant(%s)" % unit_expr, unit_expr, dim, mag))
    add("k1000m", "au::Meters{} * au::mag<1000>()", m.dim, model.mag_int(1000))
    add("r5_7mps", "au::Meters{} / au::Seconds{} * au::mag<5>() / au::mag<7>()", model.d(L=1, T=-1), model.mag_ratio(5, 7))
    add("bigprimeHz", "au::Hertz{} * au::mag<18446744073709551557u>()", model.d(T=-1), model.mag_int(2 ** 64 - 59))
    add("pi_rad", "au::Radians{} * au::Magnitude<au::Pi>{}", model.d(ANG=1), dict(model.MAG_PI))
    add("sqrt2m", "au::Meters{} * au::root<2>(au::mag<2>())", m.dim, {2: Fr(1, 2)})
    add("i32max_m", "au::Meters{} * au::mag<2147483647>()", m.dim, model.mag_int(2 ** 31 - 1))
    add("i32max1_m", "au::Meters{} * au::mag<2147483648u>()", m.dim, model.mag_int(2 ** 31))
    add("u8max1_s", "au::Seconds{} * au::mag<256>()", s.dim, model.mag_int(256))
    add("tiny_m", "au::Meters{} * au::pow<-46>(au::mag<10>())", m.dim, model.vpow(model.mag_int(10), -46))
    add("huge_m", "au::Meters{} * au::pow<39>(au::mag<10>())", m.dim, model.vpow(model.mag_int(10), 39))
    add("ftlb", "au::Feet{} * au::PoundsForce{}", model.vmul(U["feet"].dim, U["pounds_force"].dim), model.vmul(U["feet"].mag, U["pounds_force"].mag))
    add("one", "au::UnitProductT<>{}", {}, {})
    # rational-power magnitudes and dimensions
    add("two32m", "au::Meters{} * au::root<2>(au::mag<8>())", m.dim, {2: Fr(3, 2)})
    add("rt_m3", "au::root<2>(au::pow<3>(au::Meters{}) * au::mag<8>())", model.vpow(m.dim, Fr(3, 2)), {2: Fr(3, 2)})
    return out


ATOMS = {model.L: "au::Meters", model.M: "au::Grams", model.T: "au::Seconds", model.I: "au::Amperes", model.TH: "au::Kelvins",
         model.ANG: "au::Radians", model.INFO: "au::Bits", model.N: "au::Moles", model.J: "au::Candelas"}


def base_unit_expr(dim):
    """a unit expression of this dimension built from SI atoms with magnitude 1 (grams for mass)"""
    parts = []
    for b, e in sorted(dim.items()):
        p = "au::pow<%d>(%s{})" % (e.numerator, ATOMS[b])
        parts.append(p if e.denominator == 1 else "au::root<%d>(%s)" % (e.denominator, p))
    return " * ".join(parts) if parts else "au::UnitProductT<>{}"


def boundary_ratios():
    """exact ratios C/u straddling every type's maximum (and, for floating types, minimum normal / half the smallest denormal)"""
    mi = model.mag_int
    out = []
    for k in (7, 8, 15, 16, 31, 32, 63, 64):
        out += [mi(2 ** k - 1), mi(2 ** k)]
    for e in (38, 39, -37, -38, -44, -46, 308, 309, -307, -308, -310, -324, 4932, 4933, -4931, -4932, -4940, -4951):
        out.append(ten(e))
    return out


NAMED_TARGETS = {   # library units (named, prefixed, compound) as targets: (expression, model magnitude)
    "SPEED_OF_LIGHT": [("decltype(au::Kilo<au::Meters>{} / au::Hours{})", model.mag_ratio(1000, 3600)),
                       ("decltype(au::Miles{} / au::Hours{})", model.vdiv(U["miles"].mag, U["hours"].mag)),
                       ("decltype(au::Knots{})", U["knots"].mag)],
    "PLANCK_CONSTANT": [("decltype(au::Joules{} * au::Seconds{})", U["joules"].mag),
                        ("decltype(au::Milli<au::Joules>{} * au::Nano<au::Seconds>{})", model.vmul(U["joules"].mag, ten(-12)))],
    "STANDARD_GRAVITY": [("decltype(au::Feet{} / au::squared(au::Seconds{}))", U["feet"].mag),
                         ("decltype(au::StandardGravity{})", U["standard_gravity"].mag)],
    "k1000m": [("au::Kilo<au::Meters>", model.mag_int(1000)), ("au::Feet", U["feet"].mag), ("au::Inches", U["inches"].mag)],
    "ftlb": [("decltype(au::Joules{})", U["joules"].mag), ("decltype(au::Newtons{} * au::Meters{})", U["newtons"].mag)],
}


def targets_for(name, idx, dim, cmag, tier):
    """Same-dimension target units as (expr, mag)."""
    base_expr = base_unit_expr(dim)
    general = [{}, model.mag_int(1000), model.mag_ratio(1, 1000), ten(9), ten(-9), model.mag_int(3), model.mag_ratio(1, 7), dict(model.MAG_PI),
               cmag, model.vmul(cmag, model.mag_int(2))]
    if tier == "quick":
        general = general[:3] + general[5:6] + general[7:9]
    bnd = boundary_ratios()
    if tier == "quick" and name not in QUICK_FULL:
        bnd = [r for j, r in enumerate(bnd) if j % 4 == idx % 4]
    scales = general + [model.vdiv(cmag, r) for r in bnd]
    out, seen = [], set()
    for sc in scales:
        k = model.mag_key(sc)
        if k in seen:
            continue
        seen.add(k)
        out.append(("decltype(%s * (%s))" % (base_expr, mag_expr(sc)) if sc else "decltype(%s)" % base_expr, sc))
    for texpr, tmag in NAMED_TARGETS.get(name, []):
        out.append((texpr, tmag))
    return out


def cell_stmts(cexpr, texpr, ratio, types, slots):
    """dump statements of one (constant, target) cell restricted to `types`"""
    stm = ['using C = std::decay_t<decltype(%s)>; using Tg = %s;' % (cexpr, texpr)]
    flags = ", ".join("C::template can_store_value_in<%s>(Tg{})" % t for t in types)
    stm.append('{ const bool f[] = {%s}; std::string s = "["; for (int i = 0; i < %d; ++i) { if (i) s += ","; s += f[i] ? "1" : "0"; } vf_kv("can", s + "]"); }' % (flags, len(types)))
    vals = []
    for t in types:
        verdict, ev = c11.expected_rep(t, ratio)
        if verdict:
            exprs = ["C{}.template as<%s>(Tg{}).in(Tg{})" % t, "C{}.template in<%s>(Tg{})" % t, "au::Quantity<Tg, %s>(C{}).in(Tg{})" % t,
                     "[] { au::Quantity<Tg, %s> q = C{}; return q.in(Tg{}); }()" % t, "c16::takes<Tg, %s>(C{})" % t]
            vals.append('std::string("\\"%s\\":[") + %s + "]"' % (t, ' + "," + '.join('"\\"" + c16::fmt<%s>(%s) + "\\""' % (t, e) for e in exprs)))
    if vals:
        stm.append('vf_kv("vals", std::string("{") + %s + "}");' % ' + "," + '.join(vals))
    if slots:
        # the same target spelled through other unit-slot families: can_store_value_in / in<T> / as<T> must not depend on the spelling
        sl = [("maker", "au::QuantityMaker<Tg>{}"), ("symbol", "au::SymbolFor<Tg>{}"), ("constant", "au::Constant<Tg>{}")]
        parts = []
        for sn, se in sl:
            f = ", ".join("C::template can_store_value_in<%s>(%s)" % (t, se) for t in types)
            parts.append('[] { const bool f[] = {%s}; std::string s = "\\"%s\\":["; for (int i = 0; i < %d; ++i) { if (i) s += ","; s += f[i] ? "1" : "0"; } return s + "]"; }()' % (f, sn, len(types)))
        stm.append('vf_kv("slot_can", std::string("{") + %s + "}");' % ' + "," + '.join(parts))
        sv = []
        for t in types:
            verdict, ev = c11.expected_rep(t, ratio)
            if verdict:
                exprs = ["C{}.template as<%s>(%s).in(Tg{})" % (t, se) for sn, se in sl] + ["C{}.template in<%s>(%s)" % (t, se) for sn, se in sl]
                sv.append('std::string("\\"%s\\":[") + %s + "]"' % (t, ' + "," + '.join('"\\"" + c16::fmt<%s>(%s) + "\\""' % (t, e) for e in exprs)))
        if sv:
            stm.append('vf_kv("slot_vals", std::string("{") + %s + "}");' % ' + "," + '.join(sv))
    return ["{"] + stm + ["}"]


def form_code(form, t):
    return {"as": "(void)C{}.template as<%s>(Tg{});" % t, "in": "(void)C{}.template in<%s>(Tg{});" % t,
            "implicit": "au::Quantity<Tg, %s> q = C{}; (void)q;" % t,
            "in-positive": "static_assert(C{}.template in<%s>(Tg{}) > 0, \"\");" % t}[form]


# ------------------------------------------------------------------------------------------------
# composition rows


def composition_rows(tier):
    """-> (value rows, wrapper rows, optional rows)."""
    hbar_m = model.vdiv(model.vmul(model.mag_int(662607015), ten(-39)), model.vmul(model.mag_int(2), model.MAG_PI))
    consts = [("c", "au::SPEED_OF_LIGHT", model.d(L=1, T=-1), model.mag_int(299792458)),
              ("hbar", "au::REDUCED_PLANCK_CONSTANT", model.vmul(J_DIM, model.d(T=1)), hbar_m),
              ("r57", "au::make_constant(au::Meters{} / au::Seconds{} * au::mag<5>() / au::mag<7>())", model.d(L=1, T=-1), model.mag_ratio(5, 7)),
              ("cgen", "au::make_constant(au::Meters{} / au::Seconds{} * au::mag<299792458>())", model.d(L=1, T=-1), model.mag_int(299792458))]
    nums = [("3.5f", "float", True), ("7", "int", False), ("uint8_t{200}", "uint8_t", False), ("int8_t{-3}", "int8_t", False),
            ("int16_t{-32768}", "int16_t", False), ("std::numeric_limits<uint64_t>::max()", "uint64_t", False), ("-0.0", "double", True),
            ("std::numeric_limits<double>::denorm_min()", "double", True), ("std::numeric_limits<float>::infinity()", "float", True),
            ("2.5L", "long double", True), ("7.25", "double", True)]
    sec, met = model.d(T=1), model.d(L=1)
    qs = [("au::seconds(7)", "int", False, sec, "7"), ("au::seconds(7.25)", "double", True, sec, "7.25"), ("au::meters(7L)", "long", False, met, "7L"),
          ("au::seconds(8.0f)", "float", True, sec, "8.0f"), ("au::seconds(int8_t{-3})", "int8_t", False, sec, "int8_t{-3}"),
          ("au::meters(-0.0)", "double", True, met, "-0.0"), ("au::seconds(std::numeric_limits<uint64_t>::max())", "uint64_t", False, sec, "std::numeric_limits<uint64_t>::max()"),
          ("au::milli(au::seconds)(uint16_t{65535})", "uint16_t", False, sec, "uint16_t{65535}"), ("au::seconds(2.5L)", "long double", True, sec, "2.5L")]
    qmag = {"au::milli(au::seconds)(uint16_t{65535})": model.mag_ratio(1, 1000)}
    rows = []
    for ci, (cn, ce, cd, cm) in enumerate(consts):
        inv_d, inv_m = model.vinv(cd), model.vinv(cm)
        for ni, (x, rep, isf) in enumerate(nums):
            if tier == "quick" and ci > 0 and ni % 3 != ci % 3:
                continue
            rows.append(("%s*%s" % (cn, x), "%s * %s" % (ce, x), rep, x, False, cd, cm))
            rows.append(("%s*%s" % (x, cn), "%s * %s" % (x, ce), rep, x, False, cd, cm))
            rows.append(("%s/%s" % (x, cn), "%s / %s" % (x, ce), rep, x, False, inv_d, inv_m))
            if isf:
                rows.append(("%s/%s" % (cn, x), "%s / %s" % (ce, x), rep, "(%s{1} / %s)" % ("T_", x), True, cd, cm))
        for qi, (q, rep, isf, qd, raw) in enumerate(qs):
            if tier == "quick" and ci > 0 and qi % 3 != ci % 3:
                continue
            qm = qmag.get(q, {})
            rows.append(("%s*%s" % (cn, q), "%s * %s" % (ce, q), rep, raw, False, model.vmul(cd, qd), model.vmul(cm, qm)))
            rows.append(("%s*%s" % (q, cn), "%s * %s" % (q, ce), rep, raw, False, model.vmul(cd, qd), model.vmul(cm, qm)))
            rows.append(("%s/%s" % (q, cn), "%s / %s" % (q, ce), rep, raw, False, model.vdiv(qd, cd), model.vdiv(qm, cm)))
            if isf:
                rows.append(("%s/%s" % (cn, q), "%s / %s" % (ce, q), rep, "(T_{1} / %s)" % raw, True, model.vdiv(cd, qd), model.vdiv(cm, qm)))
    C0, cd, cm = consts[0][1:]
    wr = []
    for cn, ce, cd_, cm_ in consts:
        three = model.mag_int(3)
        wr += [("%s*mag" % cn, "%s * au::mag<3>()" % ce, "Constant", cd_, model.vmul(cm_, three)), ("mag*%s" % cn, "au::mag<3>() * %s" % ce, "Constant", cd_, model.vmul(cm_, three)),
               ("%s/mag" % cn, "%s / au::mag<3>()" % ce, "Constant", cd_, model.vdiv(cm_, three)), ("mag/%s" % cn, "au::mag<3>() / %s" % ce, "Constant", model.vinv(cd_), model.vdiv(three, cm_)),
               ("%s*pi" % cn, "%s * au::Magnitude<au::Pi>{}" % ce, "Constant", cd_, model.vmul(cm_, model.MAG_PI)),
               # magnitudes equal to one, in several spellings, and a scaling that is undone: the constant must stay what it was
               ("%s*mag1" % cn, "%s * au::mag<1>()" % ce, "Constant", cd_, cm_), ("mag1*%s" % cn, "au::mag<1>() * %s" % ce, "Constant", cd_, cm_),
               ("%s/mag1" % cn, "%s / au::mag<1>()" % ce, "Constant", cd_, cm_), ("%s*ONE" % cn, "%s * au::ONE" % ce, "Constant", cd_, cm_),
               ("%s*7/7" % cn, "%s * (au::mag<7>() / au::mag<7>())" % ce, "Constant", cd_, cm_),
               ("%s*pow0" % cn, "%s * au::pow<0>(au::mag<10>())" % ce, "Constant", cd_, cm_),
               ("%s*3/3" % cn, "(%s * au::mag<3>()) / au::mag<3>()" % ce, "Constant", cd_, cm_),
               ("mag1/%s" % cn, "au::mag<1>() / %s" % ce, "Constant", model.vinv(cd_), model.vinv(cm_)),
               ("%s*maker" % cn, "%s * au::seconds" % ce, "QuantityMaker", model.vmul(cd_, model.d(T=1)), cm_), ("maker*%s" % cn, "au::seconds * %s" % ce, "QuantityMaker", model.vmul(cd_, model.d(T=1)), cm_),
               ("%s/maker" % cn, "%s / au::meters" % ce, "QuantityMaker", model.vdiv(cd_, model.d(L=1)), cm_), ("maker/%s" % cn, "au::meters / %s" % ce, "QuantityMaker", model.vdiv(model.d(L=1), cd_), model.vinv(cm_)),
               ("%s*kilomaker" % cn, "%s * au::kilo(au::meters)" % ce, "QuantityMaker", model.vmul(cd_, model.d(L=1)), model.vmul(cm_, model.mag_int(1000))),
               ("%s*singular" % cn, "%s * au::second" % ce, "SingularNameFor", model.vmul(cd_, model.d(T=1)), cm_), ("singular*%s" % cn, "au::second * %s" % ce, "SingularNameFor", model.vmul(cd_, model.d(T=1)), cm_),
               ("%s/singular" % cn, "%s / au::meter" % ce, "SingularNameFor", model.vdiv(cd_, model.d(L=1)), cm_), ("singular/%s" % cn, "au::meter / %s" % ce, "SingularNameFor", model.vdiv(model.d(L=1), cd_), model.vinv(cm_)),
               ("%s*C" % cn, "%s * au::PLANCK_CONSTANT" % ce, "Constant", model.vmul(cd_, model.vmul(J_DIM, model.d(T=1))), model.vmul(cm_, lib_constants()[6][2])),
               ("C*%s" % cn, "au::PLANCK_CONSTANT * %s" % ce, "Constant", model.vmul(cd_, model.vmul(J_DIM, model.d(T=1))), model.vmul(cm_, lib_constants()[6][2])),
               ("%s/self" % cn, "%s / %s" % (ce, ce), "Constant", {}, {}),
               ("%s/G" % cn, "%s / au::STANDARD_GRAVITY" % ce, "Constant", model.vdiv(cd_, model.d(L=1, T=-2)), model.vdiv(cm_, model.mag_ratio(980665, 100000))),
               ("G/%s" % cn, "au::STANDARD_GRAVITY / %s" % ce, "Constant", model.vdiv(model.d(L=1, T=-2), cd_), model.vdiv(model.mag_ratio(980665, 100000), cm_))]
    mps_d = model.d(L=1, T=-1)
    wr += [("make_constant(unit)", "au::make_constant(au::Meters{} / au::Seconds{})", "Constant", mps_d, {}),
           ("make_constant(maker)", "au::make_constant(au::meters / au::second)", "Constant", mps_d, {}),
           ("make_constant(kilomaker)", "au::make_constant(au::kilo(au::meters) / au::hour)", "Constant", mps_d, model.mag_ratio(1000, 3600)),
           ("make_constant(symbol)", "au::make_constant(au::symbols::m / au::symbols::s)", "Constant", mps_d, {}),
           ("make_constant(constant)", "au::make_constant(au::SPEED_OF_LIGHT)", "Constant", mps_d, model.mag_int(299792458))]
    # operand families that this library version does not document for Constant: observed, judged only if offered
    CT = "std::decay_t<decltype(au::SPEED_OF_LIGHT)>"
    opt = [("C*unit", "c16::Mul<%s, au::Meters>" % CT, model.vmul(cd, model.d(L=1)), cm), ("unit*C", "c16::Mul<au::Meters, %s>" % CT, model.vmul(cd, model.d(L=1)), cm),
           ("C/unit", "c16::Div<%s, au::Seconds>" % CT, model.vdiv(cd, model.d(T=1)), cm), ("unit/C", "c16::Div<au::Seconds, %s>" % CT, model.vdiv(model.d(T=1), cd), model.vinv(cm)),
           ("C*symbol", "c16::Mul<%s, au::SymbolFor<au::Meters>>" % CT, model.vmul(cd, model.d(L=1)), cm), ("symbol*C", "c16::Mul<au::SymbolFor<au::Meters>, %s>" % CT, model.vmul(cd, model.d(L=1)), cm),
           ("C/symbol", "c16::Div<%s, au::SymbolFor<au::Seconds>>" % CT, model.vdiv(cd, model.d(T=1)), cm), ("symbol/C", "c16::Div<au::SymbolFor<au::Seconds>, %s>" % CT, model.vdiv(model.d(T=1), cd), model.vinv(cm))]
    return rows, wr, opt


def build(tier):
    """the record / probe set of one tier's grid"""
    consts = []
    for name, dim, mag in lib_constants():
        consts.append((name, "au::" + name, None, dim, mag, True))
    for name, cexpr, uexpr, dim, mag in gen_constants():
        consts.append((name, cexpr, uexpr, dim, mag, False))
    recs, meta = [], {}
    rid = 0
    probes = []
    ncell = 0
    for ci, (name, cexpr, uexpr, dim, mag, is_lib) in enumerate(consts):
        # the constant's own unit against the model (SI definition for library constants)
        recs.append((rid, ['vf_kv("u", c16::kind_unit<std::decay_t<decltype(%s)>>());' % cexpr]))
        meta[rid] = {"kind": "unit", "name": name, "dim": dim, "mag": mag, "wkind": "Constant"}
        rid += 1
        for ti, (texpr, tmag) in enumerate(targets_for(name, ci, dim, mag, tier)):
            ratio = model.vdiv(mag, tmag)
            slots = name in SLOT_CONSTS and (tier != "quick" or ti % 3 == 0)
            recs.append((rid, cell_stmts(cexpr, texpr, ratio, R11, slots)))
            meta[rid] = {"kind": "cell", "name": name, "ratio": ratio, "target": texpr, "cexpr": cexpr, "slots": slots}
            pre = "using C = std::decay_t<decltype(%s)>; using Tg = %s; " % (cexpr, texpr)
            for k, t in enumerate(R11):
                verdict, ev = c11.expected_rep(t, ratio)
                if verdict is False:
                    for fi, form in enumerate(FORMS):
                        # quick: one spelling per (cell, type), rotating, so every non-representable (cell, type) is probed
                        if tier == "quick" and (ncell + k) % 3 != fi:
                            continue
                        probes.append(core.Probe((rid, t, form), pre + form_code(form, t), "reject", {"name": name, "t": t, "ratio": ratio}))
                elif verdict and tier != "quick":
                    # (the dump already copy-initialises every representable (cell, type); thorough repeats it as an accept twin)
                    probes.append(core.Probe((rid, t, "twin"), pre + form_code("implicit", t), "accept", {"name": name, "t": t, "ratio": ratio}))
            ncell += 1
            rid += 1
    # composition: stored number untouched, unit = model, result of the right wrapper family
    rows, wrappers, optional = composition_rows(tier)
    for (nm, expr, rep, val, recip, dim, mag) in rows:
        stm = ['auto r = %s; using Q = std::decay_t<decltype(r)>; using T_ = %s;' % (expr, rep),
               'vf_b("rep", std::is_same<typename Q::Rep, T_>::value);',
               'const T_ want = %s; const T_ got = r.in(Q::unit); vf_b("bits", c16::same_value_bits(got, want));' % val,
               'vf_b("near", %s);' % ("c16::near1(got, want)" if recip else "false"),
               'vf_kv("u", c16::kind_unit<Q>());']
        recs.append((rid, ["{"] + stm + ["}"]))
        meta[rid] = {"kind": "comp", "name": nm, "dim": dim, "mag": mag, "wkind": "Quantity", "recip": recip}
        rid += 1
    for (nm, expr, wkind, dim, mag) in wrappers:
        recs.append((rid, ['vf_kv("u", c16::kind_unit<std::decay_t<decltype(%s)>>());' % expr]))
        meta[rid] = {"kind": "unit", "name": nm, "dim": dim, "mag": mag, "wkind": wkind}
        rid += 1
    for (nm, expr, dim, mag) in optional:
        recs.append((rid, ['vf_kv("u", %s::get());' % expr]))
        meta[rid] = {"kind": "optional", "name": nm, "dim": dim, "mag": mag}
        rid += 1
    return {"tier": tier, "consts": consts, "recs": recs, "meta": meta, "probes": probes, "rows": rows, "wrappers": wrappers}


def check(run):
    tier = run.tier
    full = build(tier)
    # thorough: the complete grid on the two corner configurations, the quick-tier grid on the four middle ones
    core_grid = full if tier == "quick" else build("quick")
    plan = [(cfg, full if cfg in core.CORNERS else core_grid) for cfg in (core.CORNERS if tier == "quick" else
            list(core.CORNERS) + [c for c in core.CFG6 if c not in core.CORNERS])]
    consts, rows, wrappers = full["consts"], full["rows"], full["wrappers"]
    evals = 0
    dont_care = 0
    both = {}
    cnt = {"dont_care_cells_consistent": 0, "dont_care_probes": 0, "reciprocal_not_bit_identical_but_within_1ulp": 0,
           "unit_or_symbol_operand_forms_not_offered": 0, "unit_or_symbol_operand_forms_offered": 0, "slot_spelling_facts": 0}
    nprobes = nprograms = 0
    skipped, cost = [], {}
    for cfg, g in plan:
        tier, recs, meta, probes = g["tier"], g["recs"], g["meta"], g["probes"]
        t_start = run.elapsed()
        if run.time_left() < 1.3 * cost.get(id(g), 0) + 30:
            skipped.append(str(cfg))
            continue
        nprograms += len(recs)
        # canaries first: when most of a dozen cells spread over the constants no longer compile, the tree has lost the
        # conversions wholesale; report those and do not bisect the whole grid record by record
        cells = [rc for rc in recs if meta[rc[0]]["kind"] == "cell"]
        canary = cells[:: max(1, len(cells) // 12)][:12]
        res, failed = psx.run_dump(cfg, canary, os.path.join(run.wd, cfg.name + "_canary"), "c16c", PREAMBLE, flags=cflags(cfg), chunk=1)
        mass = len(failed) * 2 >= len(canary)
        if mass:
            cnt.setdefault("grid_skipped_after_mass_failure", []).append(str(cfg))
        else:
            res, failed = psx.run_dump(cfg, recs, os.path.join(run.wd, cfg.name), "c16", PREAMBLE, flags=cflags(cfg),
                                       chunk=max(6, min(40, len(recs) // (core.NCPU * 2) + 1)))
        # a cell mixes all 11 types: attribute a compile failure to the (cell, type) that causes it
        split, smeta = [], {}
        nsplit = 0
        for r, diag in sorted(failed.items()):
            m = meta[r]
            if m["kind"] != "cell":
                key = "C16:does-not-compile:%s:%s" % (m["name"], m.get("target", ""))
                run.violation(key, "%s: %s (%s) does not compile: %s" % (cfg, m["name"], m["kind"], diag),
                              run.write_replay(key, {"kind": "program", "config": str(cfg), "stmts": recs[r][1], "must_compile": True}))
                continue
            nsplit += 1
            if nsplit > 8:
                continue            # mass failure: only the first few cells are attributed per type, the rest are reported as whole cells
            for t in R11:
                sid = len(split)
                split.append((sid, cell_stmts(m["cexpr"], m["target"], m["ratio"], [t], m["slots"])))
                smeta[sid] = (r, t, diag)
        blamed = set()
        if split:
            sres, sfailed = psx.run_dump(cfg, split, os.path.join(run.wd, cfg.name + "_split"), "c16s", PREAMBLE, flags=cflags(cfg), chunk=8)
            for sid, diag in sfailed.items():
                r, t, _ = smeta[sid]
                m = meta[r]
                blamed.add(r)
                key = "C16:does-not-compile:%s:%s:%s" % (m["name"], t, model.mag_key(m["ratio"]))
                run.violation(key, "%s: %s -> %s: can_store_value_in<%s> / as / in / implicit conversion do not compile although the exact ratio ~2^%.1f is representable: %s" % (
                    cfg, m["name"], m["target"], t, c11.approx_log2(m["ratio"]), diag),
                    run.write_replay(key, {"kind": "program", "config": str(cfg), "stmts": split[sid][1], "must_compile": True}))
        for r, diag in sorted(failed.items()):
            m = meta[r]
            if m["kind"] == "cell" and r not in blamed:
                key = "C16:does-not-compile:%s:%s" % (m["name"], m["target"])
                run.violation(key, "%s: %s -> %s does not compile (not attributed to a single type): %s" % (cfg, m["name"], m["target"], diag),
                              run.write_replay(key, {"kind": "program", "config": str(cfg), "stmts": recs[r][1], "must_compile": True}))
        dc_probes = []
        for r, o in res.items():
            m = meta[r]

            def viol(kind, what, t=""):
                key = "C16:%s:%s:%s:%s" % (kind, m["name"], t, model.mag_key(m.get("ratio", {})))
                run.violation(key, "%s: %s" % (cfg, what), run.write_replay(key, {"kind": "program", "config": str(cfg), "stmts": recs[r][1], "observed": o}))
            evals += 1
            if m["kind"] == "optional":
                if o["u"] is None:
                    cnt["unit_or_symbol_operand_forms_not_offered"] += 1
                    continue
                cnt["unit_or_symbol_operand_forms_offered"] += 1
            if m["kind"] in ("unit", "comp", "optional"):
                gd, gm = model.dim_key(model.dim_from_readout(o["u"]["dim"])), model.mag_key(model.mag_from_readout(o["u"]["mag"]))
                if gd != model.dim_key(m["dim"]) or gm != model.mag_key(m["mag"]):
                    viol("unit", "%s has unit dim=%s mag=%s; expected dim=%s mag=%s" % (m["name"], gd, gm, model.dim_key(m["dim"]), model.mag_key(m["mag"])))
                if "wkind" in m and o["u"]["kind"] != m["wkind"]:
                    viol("wrapper-kind", "%s yields a %s, expected a %s" % (m["name"], o["u"]["kind"], m["wkind"]))
                if m["kind"] == "comp":
                    if not o["rep"] or not (o["bits"] or o["near"]):
                        viol("stored-number", "%s changed the stored number or its type: %s" % (m["name"], o))
                    elif not o["bits"]:
                        cnt["reciprocal_not_bit_identical_but_within_1ulp"] += 1
                continue
            for k, (t, can) in enumerate(zip(R11, o["can"])):
                evals += 1
                can = bool(can)
                verdict, ev = c11.expected_rep(t, m["ratio"])
                both.setdefault(t, set()).add(can)
                if m["slots"]:
                    for sn in ("maker", "symbol", "constant"):
                        cnt["slot_spelling_facts"] += 1
                        if bool(o["slot_can"][sn][k]) != can:
                            viol("slot-can", "%s: can_store_value_in<%s>(%s spelled as a %s) is %s but %s for the bare unit" % (m["name"], t, m["target"], sn, not can, can), t)
                if verdict is None:
                    dont_care += 1
                    # either answer is fine, but all four must agree ("available exactly when")
                    pre = "using C = std::decay_t<decltype(%s)>; using Tg = %s; " % (m["cexpr"], m["target"])
                    forms = ("as", "in-positive" if can and t in F3 else "in", "implicit")
                    for fi, form in enumerate(forms):
                        if tier == "quick" and (r + k) % 3 != fi:
                            continue          # quick: one rotating spelling per don't-care (cell, type)
                        dc_probes.append(core.Probe((r, t, form), pre + form_code(form, t), "accept" if can else "reject",
                                                    {"name": m["name"], "t": t, "ratio": m["ratio"], "dc": True}))
                    continue
                if can != verdict:
                    viol("can_store_value_in", "%s: can_store_value_in<%s>(%s) is %s but the exact ratio ~2^%.1f is %s" % (
                        m["name"], t, m["target"], can, c11.approx_log2(m["ratio"]), "representable" if verdict else "not representable"), t)
                    continue
                if verdict and t in o.get("vals", {}):
                    allv = list(zip(VAL_FORMS, o["vals"][t]))
                    if m["slots"] and t in o.get("slot_vals", {}):
                        allv += list(zip(["as(maker)", "as(symbol)", "as(constant)", "in(maker)", "in(symbol)", "in(constant)"], o["slot_vals"][t]))
                    for form, val in allv:
                        evals += 1
                        if t in I8:
                            if ev is not None and int(val) != ev:
                                viol("value", "%s .%s<%s>(%s) = %s, exact %s" % (m["name"], form, t, m["target"], val, ev), t)
                        else:
                            got = c11.parse_hexfloat(val)
                            if got is None or got <= 0 or (ev is not None and abs(got - ev) > 4 * c11.ulp(t, ev)):
                                nulp = core.ffloat(abs(got - ev) / c11.ulp(t, ev)) if (got is not None and ev is not None) else -1
                                viol("value-off-by-le64ulp" if 0 <= nulp <= 64 else "value", "%s .%s<%s>(%s) = %s differs from the exact ratio by %.3g ulp" % (m["name"], form, t, m["target"], val, nulp), t)
        cnt["dont_care_probes"] += len(dc_probes)
        pres = {}
        if mass:
            probes = []
        for part, tag in ((probes, "c16p"), ([p for p in dc_probes if p.expect == "accept"], "c16da"), ([p for p in dc_probes if p.expect == "reject"], "c16dr")):
            if part:
                pres.update(core.run_probes(cfg, part, os.path.join(run.wd, tag + "_" + cfg.name), tag, PREAMBLE, flags=cflags(cfg))[0])
        nprobes += len(probes) + len(dc_probes)
        for p in probes + dc_probes:
            v, diag = pres[p.pid]
            evals += 1
            if v != p.expect:
                key = "C16:%s-%s:%s:%s:%s" % (p.pid[2], v, p.meta["name"], p.meta["t"], model.mag_key(p.meta["ratio"]))
                if p.meta.get("dc"):
                    what = "%s: `%s` is %sed although can_store_value_in<%s> for the same constant and unit is %s (exact ratio ~2^%.1f, in the denormal / near-max band where either answer is allowed but all four must agree): %s" % (
                        cfg, p.code, v, p.meta["t"], "true" if p.expect == "accept" else "false", c11.approx_log2(p.meta["ratio"]), diag[:160])
                else:
                    what = "%s: `%s` is %sed; exact ratio is %s" % (cfg, p.code, v, "representable" if p.expect == "accept" else "not representable")
                run.violation(key, what, run.write_replay(key, {"kind": "program", "config": str(cfg), "code": p.code, "expected": p.expect, "observed": v}))
            elif p.meta.get("dc"):
                cnt["dont_care_cells_consistent"] += 1
        cost[id(g)] = max(cost.get(id(g), 0), run.elapsed() - t_start)
    tier, meta = run.tier, full["meta"]
    cfgs = [c for c, g in plan if str(c) not in skipped]
    if skipped:
        cnt["configs_skipped_for_deadline"] = skipped
    run.cov.update({
        "evaluations": evals, "programs": nprograms + nprobes, "constants": len(consts), "cells": sum(1 for m in meta.values() if m["kind"] == "cell"),
        "probes": nprobes, "dont_care": dont_care, "distinct_nontrivial": sum(1 for s in both.values() if len(s) == 2),
        "composition_value_rows": len(rows), "composition_wrapper_rows": len(wrappers),
        "rule": "9 library constants (units checked against their SI definitions) + 14 generated constants (integer, rational, 2^64-59, pi, sqrt2, 2^(3/2), a rational-power "
                "dimension, compound, type-limit values) x same-dimension target units (SI-atom products scaled so that the exact ratio is 2^k-1 / 2^k for k in 7,8,15,16,31,32,63,64 "
                "and 10^e on both sides of FLT/DBL/LDBL max, min normal and half the smallest denormal; a few named, prefixed and compound library units) x 11 arithmetic types: "
                "can_store_value_in read out; as<T>, in<T>, direct-init, copy-init and argument-position implicit conversion values where representable; accept/reject probes of "
                "as / in / implicit otherwise (quick: one rotating spelling per non-representable (cell, type); thorough: all three); in the don't-care band the three forms are probed "
                "against the library's own can_store_value_in answer (all four must agree); the target is also spelled as QuantityMaker / SymbolFor / Constant for 3 constants. "
                "Composition: 3 constants (integer, irrational, rational magnitude) x an enumerated alphabet of numbers (float, int, narrow signed/unsigned, uint64 max, -0.0, "
                "denormal, inf, long double) and quantities x {C*x, x*C, x/C, C/x}: rep identical, stored number bit-identical (C/x: bit-identical to T{1}/x, or counted when within "
                "1 ulp), unit = model, result of the expected wrapper family; magnitudes, makers, singular names, constants, make_constant(slot). "
                "distinct_nontrivial = number of types with both storable and non-storable cells.",
        "configs": [str(c) for c in cfgs], "exhaustive": not skipped and "grid_skipped_after_mass_failure" not in cnt,
        "exhaustive_note": ("the stated finite grid is enumerated completely" + (" (thorough: complete grid on g++/c++14 and clang++/c++20, the quick-tier grid on the other four configurations)" if tier != "quick" else "")
                            if not skipped else "configurations skipped to respect the deadline: %s" % skipped),
        "samples": [{"constant": m["name"], "target": m["target"]} for m in list(meta.values())[:: max(1, len(meta) // 6)] if m["kind"] == "cell"][:6],
    })
    run.cov.update(cnt)
    run.assumptions += ["representability oracle shared with C11 (same don't-care bands)",
                        "Constant (x) bare unit type and Constant (x) SymbolFor are not documented operations of this library version (docs/reference/constant.md lists numbers, "
                        "quantities, constants, makers, singular names, magnitudes): they are observed and judged (unit = model) only when offered, otherwise counted",
                        "C / integer and C / integer-rep quantity are rejected by a documented static_assert and are not probed"]


def replay(path):
    import json
    r = json.load(open(path))
    cfg = [c for c in core.CFG6 if str(c) == r.get("config")]
    cfg = cfg[0] if cfg else core.GXX14
    wd = os.path.join(core.BUILD, "C16", "replay")
    if "code" in r:
        res, _ = core.run_probes(cfg, [core.Probe(0, r["code"], r["expected"])], wd, "rp", PREAMBLE, flags=cflags(cfg))
        print("observed:", res[0][0], "expected:", r["expected"])
        if res[0][0] != r["expected"]:
            print("VIOLATION property=C16 replay=%s" % path)
            return 1
        return 0
    res, failed = psx.run_dump(cfg, [(0, r["stmts"])], wd, "rp", PREAMBLE, flags=cflags(cfg))
    print("observed now:", res.get(0), failed)
    if failed or (not r.get("must_compile") and res.get(0) == r.get("observed")):
        print("VIOLATION property=C16 replay=%s" % path)
        return 1
    return 0
