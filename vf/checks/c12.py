"""C12 — factorisation, primality and modular helpers are exact on 64-bit inputs.

Bounded exhaustive enumeration of the real au::detail helpers (called at run time from compiled
harness binaries, and at compile time through mag<N>()) against independent oracles: segmented sieve,
12-base deterministic Miller-Rabin over unsigned __int128, 128-bit modular arithmetic, Python big ints.
"""
import json
import os

from .. import c12_lib as L
from .. import core

LEVEL = "exploration"


def check(run):
    tier = run.tier
    quick = tier == "quick"
    hard_cap = 170 if quick else 1500          # own wall budget (s), inside run.time_left()
    left = lambda: min(run.time_left(), hard_cap - run.elapsed())
    col = L.Collector(run)
    wd = run.wd

    # build everything up front, in parallel
    specs = [("sieve", core.GXX14, [], ""), ("families", core.GXX14, [], ""),
             ("modcube", core.GXX14, [], ""), ("modcube", core.CLANG14, L.SAN, "_san"),
             ("wrapsq", core.GXX14, [], ""), ("single", core.GXX14, [], ""),
             ("families", core.CLANG14, L.UBF, "_ub"), ("sieve", core.CLANG14, L.UBF, "_ub")]
    exes = dict(zip([s[0] + s[3] for s in specs],
                    core.pmap(lambda s: L.must_build(wd, s[0], s[1], s[2], s[3]), specs)))
    col.single = exes["single"]
    cov_build_s = round(run.elapsed(), 1)
    cov, evals, nontriv = {}, 0, 0

    phases = []

    def take(r):
        nonlocal evals, nontriv
        phases.append(round(run.elapsed(), 1))
        cov.update(r[0])
        evals += r[1]
        nontriv += r[2] if len(r) > 2 else 0

    # the compile-time grid (mostly compiler latency) runs concurrently with pass 2 below; like the
    # factor finder it evaluates Pollard rho (in the compiler), so it is gated by pass 1 as well
    import threading
    ct_box = {}

    def ct_thread():
        try:
            ct_box["r"] = L.explore_ct(run, tier, ct_box.get("extra", ()))
        except core.InfraError as e:
            # The all-headers PCH / preamble does not build.  If that is because mag<N>() itself has lost
            # numbers (a library static_assert fires), the fallback reports those as violations.
            try:
                fb = L.explore_ct_nopch(run, tier, str(e))
            except BaseException as e2:
                fb, e = None, e2
            if fb is None:
                ct_box["e"] = e
            else:
                ct_box["r"] = fb
                if not run.violations:
                    ct_box["e"] = e
        except BaseException as e:      # re-raised in the main thread
            ct_box["e"] = e

    th = threading.Thread(target=ct_thread, daemon=True)
    tmo = 600 if quick else 2400
    # Pass 1: everything that does not call find_prime_factor.  The factor finder relies on is_prime
    # and on the modular helpers and need not terminate when those are wrong, so it is only run
    # (pass 2) when pass 1 produced no violation other than known findings.
    take(L.explore_wrapsq(run, col, exes["wrapsq"], 1 << (26 if quick else 30), "a"))
    fam1 = L.explore_families(run, col, exes["families"], tier, False, tmo)
    take(L.explore_modcube(run, col, exes["modcube"], exes["modcube_san"], tier))
    take(L.explore_replica(run, tier, col, exes["modcube"], exes["modcube_san"]))
    sw = L.SieveSweep(run, col, exes["sieve"], 26 if quick else 32)
    first, second = L.sieve_plan(sw.limit_log2)
    sw.sweep(first, max(30, left() * (0.45 if quick else 0.5)), tmo)
    gate = not run.violations
    if gate:
        # adversarial inputs for the constant-evaluation records: the largest / smallest pseudoprimes the
        # sieve's own slow tests found, and the is_perfect_square wrap collisions
        psp = L.merge(sw.res).get("P", [])
        sp2 = sorted(int(x) for p in psp for x in p["spsp2"])
        slp = sorted(int(x) for p in psp for x in p["slpsp"])
        ct_box["extra"] = (sp2[-3:] + slp[:2] + slp[-3:] +
                           [int(c["n"]) for c in cov.get("wrap_collision_list", [])[:6]])
        th.start()
        take(L.explore_families(run, col, exes["families"], tier, True, tmo))
        take(L.explore_ub(run, col, exes["families_ub"], exes["sieve_ub"], tier, tmo))
        colls = [c["n"] for c in cov.get("wrap_collision_list", [])]
        if colls:
            r = L.run_bin(exes["single"], ["prime"] + colls, timeout=tmo)
            col.add_all(r.get("V", []), "find_prime_factor on the wrap-collision inputs")
            cov["wrap_collisions_factored"] = sum(s["evals_factor"] for s in r.get("S", []))
            evals += cov["wrap_collisions_factored"]
        reserve = 10 if quick else (200 if left() > 500 else 60)
        sw.sweep(second, max(30, left() - reserve), tmo)
    else:
        take(fam1)
        cov["find_prime_factor_passes_skipped"] = (
            "pass 1 (is_prime / modular helpers) reported violations; find_prime_factor depends on "
            "them and may not terminate, so it was not swept")
    take(sw.coverage())
    if not quick and gate and left() > 120:
        budget = 1 << 34 if left() > 400 else 1 << 32
        r = L.explore_wrapsq(run, col, exes["wrapsq"], budget, "b")
        r[0]["wrap_first_pass_A_values"] = cov.get("wrap_A_values")
        take(r)
    if gate:
        th.join()
    else:
        ct_box["e"] = core.InfraError("compile-time grid not run: pass 1 reported violations")
    if "e" in ct_box:
        # e.g. the library headers themselves no longer compile (mag<N>() of a constant trips the
        # Prime<N> static_assert).  Run-time violations already found must not be masked by that.
        if not run.violations or not isinstance(ct_box["e"], core.InfraError):
            raise ct_box["e"]
        cov["ct_infrastructure_error"] = str(ct_box["e"])[-600:]
    else:
        take(ct_box["r"])
    full = (cov["sieve_is_prime_exhaustive_below"] == 1 << cov["sieve_limit_log2"] and
            cov["sieve_find_prime_factor_exhaustive_below"] == 1 << cov["sieve_limit_log2"])
    cov.update({
        "phase_end_wall_s": {"build": cov_build_s, "phases": phases},
        "evaluations": evals,
        "distinct_nontrivial": nontriv,
        "rule": ("(1) every n below the stated bound: is_prime and find_prime_factor vs a segmented sieve "
                 "(returned factor must divide n and be prime); (2) structured 64-bit families built by "
                 "independent code (p^2, p*q around 2^16/2^31/2^32, all Carmichael (6k+1)(12k+1)(18k+1) < "
                 "2^64, strong base-2 / strong Lucas pseudoprimes found by the harness's own slow tests, "
                 "nearest primes/composites/trial-division-resistant composites around 2^27..2^64, and the "
                 "base-2 strong pseudoprimes below 2^32 enumerated by structure: n = p*(1+j*ord_p(2)) for "
                 "every prime P0 <= p < 2^16 and p*(r(p-1)+1), r = 2..64, each confirmed by the harness's "
                 "own sprp) judged by 12-base deterministic Miller-Rabin; the families and two exhaustive "
                 "windows once more under clang -fsanitize=undefined with per-call attribution of reports; "
                 "(3) add/sub/mul/half/pow_mod on an operand cube and on an enumerated operand lattice "
                 "(fractions floor(n*i/32)+-1, k*2^j, and b = q*floor(n/a)+r around mul_mod's own chunk "
                 "boundaries; moduli up to 2^64-1) vs unsigned __int128, also under clang's "
                 "unsigned-overflow sanitizer with per-call attribution; (4) unmodified mod.hh over a "
                 "trapping W-bit word, all a,b<n<2^W, every divergence re-run scaled to 64 bits as a real "
                 "case; (6) complete 2-adic solution sets of c^2 == n (mod 2^64) per Newton iterate of "
                 "is_perfect_square; (5) static mag<a>()*mag<b>() == mag<a*b>(), canonical read-out, type "
                 "identity, std::is_same against the hand-spelled au::Magnitude<au::Prime<p>, "
                 "au::Pow<au::Prime<q>, e>, ...>, and is_prime / find_prime_factor forced into constant "
                 "evaluation on adversarial 64-bit inputs constructed by big-int searches. Every call of the "
                 "code under test runs under a CPU-time watchdog: a call that does not return within 1-2 CPU "
                 "seconds, or traps, is a violation (kinds *-hang / *-trap). A compile-time record that does "
                 "not compile is a violation (mag-hard-error / ct-hard-error) unless the diagnostic is an "
                 "exhausted constexpr/template budget. "
                 "distinct_nontrivial counts sub-exploration cells (sieve chunks, families, modulus "
                 "partitions, wrap collisions, compile-time numbers) in which both outcomes of the checked "
                 "predicate (prime/composite, overflow path/fit path, equal/unequal) were observed."),
        "exhaustive": bool(full),
        "exhaustive_note": ("exhaustive for n < 2^%d (is_prime below %d, find_prime_factor below %d) and for "
                            "the replica word sizes; the statement's 'all 64-bit n' is covered on the "
                            "listed families only" % (cov["sieve_limit_log2"],
                                                      cov["sieve_is_prime_exhaustive_below"],
                                                      cov["sieve_find_prime_factor_exhaustive_below"])),
        "samples": (cov.get("family_samples", [])[:8] +
                    [{"wrap_collision": c} for c in cov.get("wrap_collision_list", [])[:4]]) or ["none"],
        "dont_care": ["pow_mod with n = 1 (no residue class representative demanded)",
                      "mag<N>() / constant-evaluated is_prime that exhausts the raised constexpr or template "
                      "budgets (diagnostic names the budget; counted in ct_budget_dont_care); any other "
                      "compile failure on n < 2^64 is a violation",
                      "a direct call of the internal helper is_perfect_square that hangs for an n that is_prime "
                      "itself handles (recorded, the same n is then judged through is_prime)",
                      "operands violating the documented preconditions a < n, b < n, n odd for half_mod_odd"],
    })
    run.cov.update(cov)
    run.assumptions += [
        "g++ 12 / clang 14 on x86-64 execute the compiled harness (incl. unsigned __int128) faithfully",
        "bases 2..37 make Miller-Rabin deterministic below 3.3e24 (Sorenson-Webster), used as the 64-bit oracle",
        "the constexpr helpers behave identically when called at run time and in constant evaluation "
        "(cross-checked on mag<N>() and on the adversarial is_prime / find_prime_factor template-argument "
        "records of the compile-time grid, not beyond)",
        "no correct call of is_prime / find_prime_factor / a modular helper needs a full CPU second "
        "(measured: <= 40 ms for Pollard rho on a 64-bit semiprime), so the watchdog cannot fire on a correct tree",
        "a finding is attributed to cause=sqwrap only when an independent 128-bit replay of the Newton "
        "iteration shows iterate*iterate == n modulo 2^64 but not exactly",
    ]


def replay(path):
    r = json.load(open(path))
    kind = r.get("kind", "")
    if kind == "ct":
        hits = L.replay_ct(r)
    else:
        run = core.Run("C12", "quick", LEVEL)
        run.wd = os.path.join(core.BUILD, "C12", "replay")
        os.makedirs(run.wd, exist_ok=True)
        col = L.Collector(run)
        hits = col.reproduce(r["case"])
    for h in hits:
        print("reproduced:", json.dumps(h) if not isinstance(h, str) else h)
    if hits:
        print("VIOLATION property=C12 replay=%s" % path)
        return 1
    print("not reproduced on the current tree: %s" % r.get("key"))
    return 0
