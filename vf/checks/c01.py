"""C01 — dimension mismatches are rejected at compile time (accept/reject probe grid)."""
import itertools
import os
import re
from fractions import Fraction as Fr

from .. import core, model, psx
from ..model import LIB_BY_STEM as U
from ..sweep34 import cflags
from . import c07

LEVEL = "exploration"

PREAMBLE = c07.PREAMBLE + r'''
using au::min; using au::max; using au::clamp;
namespace c01 {
template <typename Void, typename... Ts> struct HasCommonImpl : std::false_type {};
template <typename... Ts>
struct HasCommonImpl<vf::void_t<typename std::common_type<Ts...>::type>, Ts...> : std::true_type {};
template <typename... Ts> using HasCommon = HasCommonImpl<void, Ts...>;
}
'''


def unit(name, cpp, dim, mag=None, origin=0):
    return model.Unit(name, cpp, dim, mag or {}, origin, None, named=False)


def classes(tier):
    """dimension class -> list of >= 2 distinct same-dimension units.  Every member serves as the representative on the
    mismatch side in turn (rotation by class-pair index), and every ring-neighbour pair inside a class is a positive twin."""
    d = model.d
    P = {p[0]: p for p in model.ALL_PREFIXES}
    m, ft, s, mn = U["meters"], U["feet"], U["seconds"], U["minutes"]
    s7 = model.scaled(s, 7)
    cls = [
        [ft, m, unit("rtm*rtm", "decltype(au::root<2>(au::Meters{}) * au::root<2>(au::Meters{}))", d(L=1)),
         # what `meters(1) + feet(1)` returns: a genuine CommonUnit<...> type (equivalent to neither input)
         unit("common(m,ft)", "au::CommonUnitT<au::Meters, au::Feet>", d(L=1), model.mag_gcd([m.mag, ft.mag]))],
        [unit("m^2", "decltype(au::pow<2>(au::Meters{}))", d(L=2)), unit("ft*in", "decltype(au::Feet{} * au::Inches{})", d(L=2), model.vmul(U["feet"].mag, U["inches"].mag))],
        [unit("m/s", "decltype(au::Meters{} / au::Seconds{})", d(L=1, T=-1)), U["knots"],
         unit("UnitImpl<L/T,7>", "au::UnitImpl<au::DimQuotientT<au::Length, au::Time>, decltype(au::mag<7>())>", d(L=1, T=-1), model.mag_int(7))],    # a bare UnitImpl
        [unit("m/s^2", "decltype(au::Meters{} / au::pow<2>(au::Seconds{}))", d(L=1, T=-2)), U["standard_gravity"]],
        [s, mn, model.scaled(s, 3, 7),               # anonymous ScaledUnit as a representative
         unit("common(d,s*7)", "au::CommonUnitT<au::Days, %s>" % s7.cpp, d(T=1), model.mag_gcd([U["days"].mag, s7.mag]))],
        [U["radians"], U["degrees"]],
        [U["unos"], U["percent"]],
        [unit("N*m", "decltype(au::Newtons{} * au::Meters{})", d(M=1, L=2, T=-2), model.mag_int(1000)), U["joules"]],
        [U["hertz"], unit("1/s", "decltype(au::pow<-1>(au::Seconds{}))", d(T=-1)), model.prefixed(P["Kilo"], U["becquerel"])],
        [model.prefixed(P["Kilo"], U["grams"]), U["pounds_mass"]],
        # units with a non-trivial origin (point semantics differ), incl. the CommonPointUnit<...> type `celsius_pt - kelvins_pt` goes through
        [U["celsius"], U["kelvins"], U["fahrenheit"],
         unit("commonpt(degC,K)", "au::CommonPointUnitT<au::Celsius, au::Kelvins>", d(TH=1), model.mag_ratio(1, 20), 0)],
        # rational powers with a numerator other than 1 (the dimension of RatioPow<B,N,D> must use N): L^(3/2) vs L^(1/2)
        [unit("in^(3/2)", "decltype(au::root<2>(au::pow<3>(au::Inches{})))", d(L=Fr(3, 2)), model.vpow(U["inches"].mag, Fr(3, 2))),
         unit("rt(m^3)", "decltype(au::root<2>(au::pow<3>(au::Meters{})) * au::mag<5>())", d(L=Fr(3, 2)), model.mag_int(5))],
        [unit("rt(in)", "decltype(au::root<2>(au::Inches{}))", d(L=Fr(1, 2)), model.vpow(U["inches"].mag, Fr(1, 2))),
         unit("rt(ft)", "decltype(au::root<2>(au::Feet{}))", d(L=Fr(1, 2)), model.vpow(U["feet"].mag, Fr(1, 2)))],
        # negative rational exponents (the sign of N in RatioPow<B,N,D>): T^(-1/2) vs T^(1/2)
        [unit("1/rt(min)", "decltype(au::root<2>(au::pow<-1>(au::Minutes{})))", d(T=Fr(-1, 2)), model.vpow(mn.mag, Fr(-1, 2))),
         unit("rt(Hz)", "decltype(au::root<2>(au::Hertz{}))", d(T=Fr(-1, 2)))],
        [unit("rt(s)", "decltype(au::root<2>(au::Seconds{}))", d(T=Fr(1, 2))),
         unit("rt(min)", "decltype(au::root<2>(au::Minutes{}))", d(T=Fr(1, 2)), model.vpow(mn.mag, Fr(1, 2)))],
    ]
    ncore = len(cls)
    if tier == "thorough":
        seen = {model.dim_key(c[0].dim) for c in cls}
        extra = {}
        for u in model.LIB:
            k = model.dim_key(u.dim)
            if k not in seen:
                extra.setdefault(k, []).append(u)
        for k, us in sorted(extra.items()):
            if len(us) == 1:
                us = us + [model.scaled(us[0], 3, 7)]
            cls.append(us[:2])
    return cls, ncore


# ---- operations of the statement, Quantity forms (a: Quantity<UA,R>, b: Quantity<UB,R2>)
BIN_OPS = [("+", "(void)(a + b);"), ("-", "(void)(a - b);"), ("==", "(void)(a == b);"), ("!=", "(void)(a != b);"), ("<", "(void)(a < b);"),
           ("<=", "(void)(a <= b);"), (">", "(void)(a > b);"), (">=", "(void)(a >= b);"), ("+=", "a += b;"), ("-=", "a -= b;"),
           ("implicit-ctor", "QA x = b; (void)x;"), ("explicit-ctor", "QA x{b}; (void)x;"), ("assign", "a = b;"),
           (".as", "(void)a.as(UB{});"), (".in", "(void)a.in(UB{});"), (".as<R>", "(void)a.template as<R>(UB{});"), (".in<R>", "(void)a.template in<R>(UB{});"),
           (".coerce_as", "(void)a.coerce_as(UB{});"), (".coerce_in", "(void)a.coerce_in(UB{});"), (".coerce_as<R>", "(void)a.template coerce_as<R>(UB{});"),
           ("min", "(void)min(a, b);"), ("max", "(void)max(a, b);"), ("clamp", "(void)clamp(a, b, b);"), ("clamp2", "(void)clamp(b, a, a);"),
           ("round_as", "(void)au::round_as(UB{}, a);"), ("round_in", "(void)au::round_in(UB{}, a);"), ("floor_as", "(void)au::floor_as(UB{}, a);"),
           ("floor_in", "(void)au::floor_in(UB{}, a);"), ("ceil_as", "(void)au::ceil_as(UB{}, a);"), ("ceil_in", "(void)au::ceil_in(UB{}, a);"),
           ("round_as<R>", "(void)au::round_as<R>(UB{}, a);")]
# helper predicates the statement does not list: probed, mismatches that compile are COUNTED (helper_predicate_*), not judged
HELPER_OPS = [("will_overflow", "(void)au::will_conversion_overflow(a, UB{});"), ("is_lossy", "(void)au::is_conversion_lossy(a, UB{});"),
              ("will_truncate", "(void)au::will_conversion_truncate(a, UB{});")]
# delegating variants and alternative unit-slot spellings of the same operations (quick: on a fixed half of the class pairs per op)
LOW_OPS = [(".coerce_in<R>", "(void)a.template coerce_in<R>(UB{});"), ("round_in<R>", "(void)au::round_in<R>(UB{}, a);"),
           ("floor_as<R>", "(void)au::floor_as<R>(UB{}, a);"), ("floor_in<R>", "(void)au::floor_in<R>(UB{}, a);"),
           ("ceil_as<R>", "(void)au::ceil_as<R>(UB{}, a);"), ("ceil_in<R>", "(void)au::ceil_in<R>(UB{}, a);"),
           (".as(maker)", "(void)a.as(au::QuantityMaker<UB>{});"), (".in(symbol)", "(void)a.in(au::SymbolFor<UB>{});"),
           (".as(constant)", "(void)a.as(au::make_constant(UB{}));"), (".coerce_in(singular)", "(void)a.coerce_in(au::SingularNameFor<UB>{});"),
           ("round_as(maker)", "(void)au::round_as(au::QuantityMaker<UB>{}, a);"), ("floor_in(symbol)", "(void)au::floor_in(au::SymbolFor<UB>{}, a);"),
           ("pt.as(ptmaker)", "(void)pa.as(au::QuantityPointMaker<UB>{});"), ("pt.in(ptmaker)", "(void)pa.in(au::QuantityPointMaker<UB>{});"),
           ("pt.in<R>", "(void)pa.template in<R>(UB{});"), ("pt.coerce_in", "(void)pa.coerce_in(UB{});"), ("pt.coerce_as<R>", "(void)pa.template coerce_as<R>(UB{});"),
           ("pt-floor_in", "(void)au::floor_in(UB{}, pa);"), ("pt-ceil_as", "(void)au::ceil_as(UB{}, pa);")]
# .data_in needs quantity-equivalent (not merely same-dimension) units for its twin
DATA_OPS = [(".data_in", "(void)a.data_in(UB{});"), (".data_in-const", "const QA ca = a; (void)ca.data_in(UB{});"),
            (".data_in-maker", "(void)a.data_in(au::QuantityMaker<UB>{});"), ("pt.data_in", "(void)pa.data_in(UB{});"),
            ("pt.data_in-maker", "(void)pa.data_in(au::QuantityPointMaker<UB>{});")]
FLOAT_OPS = [("hypot", "(void)au::hypot(a, b);"), ("fmod", "(void)au::fmod(a, b);"), ("remainder", "(void)au::remainder(a, b);"),
             ("arctan2", "(void)au::arctan2(a, b);")]
INT_OPS = [("%", "(void)(a % b);")]
CPP20_OPS = [("<=>", "(void)(a <=> b);")]
INV_OPS = [("inverse_as", "(void)au::inverse_as(UB{}, a);"), ("inverse_in", "(void)au::inverse_in(UB{}, a);"),
           ("inverse_as<R>", "(void)au::inverse_as<R>(UB{}, a);"), ("inverse_in<R>", "(void)au::inverse_in<R>(UB{}, a);")]
POINT_OPS = [("pt-", "(void)(pa - pb);"), ("pt==", "(void)(pa == pb);"), ("pt!=", "(void)(pa != pb);"), ("pt<", "(void)(pa < pb);"), ("pt<=", "(void)(pa <= pb);"),
             ("pt>", "(void)(pa > pb);"), ("pt>=", "(void)(pa >= pb);"), ("pt-ctor", "PA x = pb; (void)x;"), ("pt-assign", "pa = pb;"),
             ("pt.as", "(void)pa.as(UB{});"), ("pt.in", "(void)pa.in(UB{});"), ("pt.coerce_as", "(void)pa.coerce_as(UB{});"), ("pt.coerce_in<R>", "(void)pa.template coerce_in<R>(UB{});"),
             ("pt+q", "(void)(pa + b);"), ("q+pt", "(void)(b + pa);"), ("pt-q", "(void)(pa - b);"), ("pt+=q", "pa += b;"),
             ("pt-round_as", "(void)au::round_as(UB{}, pa);"),
             # point overloads of min/max/clamp, -=, the (conditionally) explicit constructor, explicit-rep and rounding forms
             ("pt-min", "(void)min(pa, pb);"), ("pt-max", "(void)max(pa, pb);"), ("pt-clamp", "(void)clamp(pa, pb, pb);"), ("pt-clamp2", "(void)clamp(pb, pa, pa);"),
             ("pt-=q", "pa -= b;"), ("pt-explicit", "PA x{pb}; (void)x;"), ("pt.as<R>", "(void)pa.template as<R>(UB{});"),
             ("pt-round_in", "(void)au::round_in(UB{}, pa);"), ("pt-floor_as", "(void)au::floor_as(UB{}, pa);"), ("pt-ceil_in", "(void)au::ceil_in(UB{}, pa);"),
             ("pt-round_as<R>", "(void)au::round_as<R>(UB{}, pa);")]
POINT20 = [("pt<=>", "(void)(pa <=> pb);")]
# genuinely three-unit lists: a, a2 have the same dimension but distinct units, b is the odd one out in each position
THREE_OPS = [("clamp(a,a2,b)", "(void)clamp(a, a2, b);"), ("clamp(a,b,a2)", "(void)clamp(a, b, a2);"), ("clamp(b,a,a2)", "(void)clamp(b, a, a2);"),
             ("pt-clamp(pa,pa2,pb)", "(void)clamp(pa, pa2, pb);"), ("pt-clamp(pb,pa,pa2)", "(void)clamp(pb, pa, pa2);")]
# the operations every other one funnels into; used for mixed reps and for the all-library-pairs pass
ROOT_NAMES = ("+", "==", "<", "implicit-ctor", "+=", "min")
MIXED_REPS = [("int32_t", "double"), ("double", "int32_t"), ("uint8_t", "int64_t"), ("float", "long double")]
OPS_GXX20_QUICK = ("==", "!=", "<", "pt==", "pt<")          # next to <=> and pt<=>: the rewritten-candidate neighbours


def body(ua, ub, rep, stmt, ua2=None, rep2=None):
    s = ("using UA = %s; using UB = %s; using R = %s; using R2 = %s; using QA = au::Quantity<UA, R>; using QB = au::Quantity<UB, R2>; "
         "using PA = au::QuantityPoint<UA, R>; using PB = au::QuantityPoint<UB, R2>; "
         "QA a = au::make_quantity<UA>(static_cast<R>(3)); QB b = au::make_quantity<UB>(static_cast<R2>(2)); "
         "PA pa = au::make_quantity_point<UA>(static_cast<R>(3)); PB pb = au::make_quantity_point<UB>(static_cast<R2>(2)); "
         "(void)a; (void)b; (void)pa; (void)pb; " % (ua.cpp, ub.cpp, rep, rep2 or rep))
    if ua2 is not None:
        s += ("using UA2 = %s; au::Quantity<UA2, R> a2 = au::make_quantity<UA2>(static_cast<R>(1)); "
              "au::QuantityPoint<UA2, R> pa2 = au::make_quantity_point<UA2>(static_cast<R>(1)); (void)a2; (void)pa2; " % ua2.cpp)
    return s + stmt


def ring_pairs(c):
    """ordered twin pairs inside a class: all permutations up to 3 members, ring neighbours (both directions) beyond"""
    if len(c) <= 3:
        return list(itertools.permutations(c, 2))
    out = []
    for k in range(len(c)):
        x, y = c[k], c[(k + 1) % len(c)]
        out += [(x, y), (y, x)]
    return out


def pair_list(cls, ncore, quick):
    """(i, j, rot, ua, ub) for every ordered pair of distinct classes.  The member that represents a class rotates with the class-pair
    index, the two orders of a pair use different members, and the designed rational-power near-miss class pairs (L^(3/2) vs L^(1/2),
    T^(-1/2) vs T^(1/2)), whose point is the *shape* of the members, get every member combination in both orders."""
    out, seen = [], set()
    for i, j in itertools.permutations(range(len(cls)), 2):
        for rot in ((0,) if quick or i >= ncore or j >= ncore else (0, 1)):
            k = i + j + rot + (1 if i > j else 0)
            ua, ub = cls[i][k % len(cls[i])], cls[j][k % len(cls[j])]
            out.append((i, j, rot, ua, ub))
            seen.add((ua.name, ub.name))
    idx = {c[0].name: n for n, c in enumerate(cls)}
    for x, y in (("in^(3/2)", "rt(in)"), ("1/rt(min)", "rt(s)")):
        for i, j in ((idx[x], idx[y]), (idx[y], idx[x])):
            for ua, ub in itertools.product(cls[i], cls[j]):
                if (ua.name, ub.name) not in seen:
                    out.append((i, j, 0, ua, ub))
    return out


def int_factor(src, dst):
    """exact integer k = mag(src)/mag(dst) if the documented policy lets an int64_t value cross it implicitly, else None"""
    r = model.vdiv(src.mag, dst.mag)
    if not model.mag_is_rational(r):
        return None
    k = model.mag_fraction(r)
    if k.denominator != 1 or 2147 * k > core.tmax("int64_t"):
        return None
    return int(k)


def check(run):
    tier = run.tier
    quick = tier == "quick"
    cls, ncore = classes(tier)
    # thorough: the core classes get 4 reps on all six configurations; the extended classes (one per remaining
    # library dimension) get rep double on the two corner configurations; see the sizing note in DESIGN.md section 13
    reps_neg = ["double", "int32_t", "uint8_t"] if quick else ["double", "int32_t", "uint8_t", "int64_t"]
    probes20, probes = [], []     # C++20-only probes kept apart
    nxt = {id(u): c[(k + 1) % len(c)] for c in cls for k, u in enumerate(c)}      # ua -> the next member of its class
    core_names = set(u.name for c in cls[:ncore] for u in c)
    helper_names = set(n for n, _ in HELPER_OPS)
    low_idx = {n: k for k, (n, _) in enumerate(LOW_OPS)}
    cur = {"rot": 0}

    def add(lst, pid, ua, ub, rep, stmt, expect, ua2=None, rep2=None):
        lst.append(core.Probe(pid, body(ua, ub, rep, stmt, ua2, rep2), expect,
                              {"a": ua.name, "b": ub.name, "rep": pid[4], "op": pid[0], "dedup": tuple(sorted((ua.name, ub.name))),
                               # "core": the subset every configuration runs in the thorough tier (the two corner configurations run everything)
                               "core": (pid[1] != "lib" and ua.name in core_names and (ub.name in core_names or pid[1] == "twin") and cur["rot"] == 0
                                        and pid[4] in ("double", "int32_t") and pid[0] not in low_idx)}))

    # ---- negative: every ordered pair of distinct classes x every op; the representative of each class rotates with the pair
    npairs = 0
    pairs = pair_list(cls, ncore, quick)
    for i, j, rot, ua, ub in pairs:
        is_core = i < ncore and j < ncore
        if True:
            ua2 = nxt[id(ua)]
            npairs += 1
            cur["rot"] = rot
            inv_ok = model.dim_key(ub.dim) != model.dim_key(model.vinv(ua.dim))     # inverse needs dim(B) == 1/dim(A)
            for rep in reps_neg:
                if quick and rep != "double" and (i + j) % 3:
                    continue
                if not is_core and rep != "double":
                    continue
                if rot and rep not in ("double", "int64_t"):
                    continue
                # hypot/fmod/remainder/arctan2 must reject a mismatch for integral reps as well; % exists for integral reps only
                if is_core:
                    low = [o for o in LOW_OPS if not quick or (i + j + low_idx[o[0]]) % 2 == 0]
                    ops = BIN_OPS + HELPER_OPS + FLOAT_OPS + ([] if rep in core.F3 else INT_OPS) + POINT_OPS + DATA_OPS + low + THREE_OPS
                else:       # extended classes (thorough): the Quantity operations in full, a fixed half of the point / variant / three-unit forms
                    ops = BIN_OPS + FLOAT_OPS + DATA_OPS + [o for k, o in enumerate(POINT_OPS + LOW_OPS + THREE_OPS) if (i + j + k) % 2 == 0]
                for name, stmt in ops:
                    add(probes, (name, "neg", ua.name, ub.name, rep), ua, ub, rep, stmt, "reject", ua2)
                if inv_ok:
                    for name, stmt in INV_OPS:
                        add(probes, (name, "neg", ua.name, ub.name, rep), ua, ub, rep, stmt, "reject")
                for name, stmt in CPP20_OPS + POINT20:
                    add(probes20, (name, "neg", ua.name, ub.name, rep), ua, ub, rep, stmt, "reject")
            # mixed reps (a: R, b: R2) on the root operations, and % on further integral reps
            if is_core and not rot and (not quick or (i + j) % 3 == 1):
                for r1, r2 in MIXED_REPS:
                    tag = "%s|%s" % (r1, r2)
                    for name, stmt in BIN_OPS + POINT_OPS:
                        if name in ROOT_NAMES or name in ("pt==", "pt-", "pt-ctor"):
                            add(probes, (name, "neg", ua.name, ub.name, tag), ua, ub, r1, stmt, "reject", None, r2)
                    if r1 not in core.F3 and r2 not in core.F3:
                        add(probes, ("%", "neg", ua.name, ub.name, tag), ua, ub, r1, INT_OPS[0][1], "reject", None, r2)
            if is_core and not rot and (not quick or (i + j) % 3 == 2):
                for rep in ("int16_t", "uint64_t"):
                    add(probes, ("%", "neg", ua.name, ub.name, rep), ua, ub, rep, INT_OPS[0][1], "reject")
    # ---- positive twins: same expression, same-dimension operands (floating rep: the policy always allows it)
    int_twins = 0
    cur["rot"] = 0
    for c in cls:
        for npair, (ua, ub) in enumerate(ring_pairs(c)):
            if model.ordering_conflict([ua, ub]):
                continue
            # every pair with double; float on every other pair (quick) and without the delegating / unit-slot variants
            for rep in ("double", "float") if not quick or npair % 2 == 0 else ("double",):
                data_ops = [o for o in DATA_OPS if model.same_quantity(ua, ub) and (not o[0].startswith("pt.") or ua.origin == ub.origin)]
                for name, stmt in BIN_OPS + HELPER_OPS + (LOW_OPS if rep == "double" else []) + FLOAT_OPS + POINT_OPS + data_ops:
                    add(probes, (name, "twin", ua.name, ub.name, rep), ua, ub, rep, stmt, "accept")
                for name, stmt in CPP20_OPS + POINT20:
                    add(probes20, (name, "twin", ua.name, ub.name, rep), ua, ub, rep, stmt, "accept")
            # mixed-rep twins on the operations that form a common type (always allowed when one side is floating) ...
            for r1, r2 in (("int32_t", "double"), ("double", "int32_t"), ("float", "long double")):
                tag = "%s|%s" % (r1, r2)
                for name, stmt in BIN_OPS:
                    if name in ("+", "==", "<", "min") or (name in ("implicit-ctor", "+=") and r1 == "double"):
                        add(probes, (name, "twin", ua.name, ub.name, tag), ua, ub, r1, stmt, "accept", None, r2)
            # ... and integral-rep twins wherever the documented policy allows the conversion (integer factor, 2147*k fits)
            g = model.mag_gcd([ua.mag, ub.mag])
            cu = unit("g", "", ua.dim, g)
            to_common = int_factor(ua, cu) is not None and int_factor(ub, cu) is not None and model.mag_is_rational(model.vdiv(ua.mag, ub.mag))
            for name, stmt in BIN_OPS + INT_OPS:
                ok = ((name in ("+", "-", "==", "<", "min", "max", "clamp", "%") and to_common) or
                      (name in ("implicit-ctor", "assign", "+=") and int_factor(ub, ua) is not None) or
                      (name in (".as", ".in") and int_factor(ua, ub) is not None))
                if ok:
                    int_twins += 1
                    add(probes, (name, "twin", ua.name, ub.name, "int64_t"), ua, ub, "int64_t", stmt, "accept")
        # three-unit twins: every rotation of three consecutive members (two members: the first one repeats)
        for k, ua in enumerate(c):
            ua2, ub = c[(k + 1) % len(c)], c[(k + 2) % len(c)]
            if model.ordering_conflict([ua, ua2, ub]):
                continue
            for name, stmt in THREE_OPS:
                add(probes, (name, "twin", ua.name, ub.name, "double"), ua, ub, "double", stmt, "accept", ua2)
        # inverse twins: target = inverse unit of the source
        for ua in c[:2]:
            inv = unit("1/" + ua.name, "decltype(au::pow<-1>(%s{}))" % ua.cpp, model.vinv(ua.dim), model.vinv(ua.mag))
            for name, stmt in INV_OPS:
                add(probes, (name, "twin", ua.name, inv.name, "double"), ua, inv, "double", stmt, "accept")
    # ---- all ordered pairs of library units x root operations (thorough)
    if not quick:
        roots = [b for b in BIN_OPS if b[0] in ("+", "==", ".in", "implicit-ctor")]
        for ua, ub in itertools.permutations(model.LIB, 2):
            same = model.dim_key(ua.dim) == model.dim_key(ub.dim)
            if same and model.ordering_conflict([ua, ub]):
                continue
            for name, stmt in roots:
                add(probes, (name, "lib", ua.name, ub.name, "double"), ua, ub, "double", stmt, "accept" if same else "reject")
    # ---- trait-style questions: must answer 'no' without a hard error ("stm": the traits the statement names;
    #      "eq": the unit/type equivalence traits, where a hard error is counted but not judged)
    recs, meta = [], {}

    def rec(stm, *m):
        recs.append((len(recs), stm))
        meta[len(recs) - 1] = m

    for i, j, rot, ua, ub in pairs:
        is_core = i < ncore and j < ncore
        if True:
            ua2 = nxt[id(ua)]
            for rep, rep2 in (("double", "double"), ("int32_t", "int32_t"), ("int32_t", "double"), ("double", "uint8_t")):
                QA, QB = "au::Quantity<%s, %s>" % (ua.cpp, rep), "au::Quantity<%s, %s>" % (ub.cpp, rep2)
                QA2 = "au::Quantity<%s, %s>" % (ua2.cpp, rep)
                PA, PB = "au::QuantityPoint<%s, %s>" % (ua.cpp, rep), "au::QuantityPoint<%s, %s>" % (ub.cpp, rep2)
                tag = rep if rep == rep2 else "%s|%s" % (rep, rep2)
                rec(['vf_b("common", c01::HasCommon<%s, %s>::value);' % (QA, QB),
                     'vf_b("conv", std::is_convertible<%s, %s>::value);' % (QA, QB),
                     'vf_b("ctor", std::is_constructible<%s, %s>::value);' % (QB, QA),
                     'vf_b("asg", std::is_assignable<%s &, %s>::value);' % (QB, QA),
                     'vf_b("pconv", std::is_convertible<%s, %s>::value);' % (PA, PB),
                     'vf_b("pctor", std::is_constructible<%s, %s>::value);' % (PB, PA),
                     'vf_b("pasg", std::is_assignable<%s &, %s>::value);' % (PB, PA),
                     'vf_b("pcommon", c01::HasCommon<%s, %s>::value);' % (PA, PB),
                     'vf_b("common3_aa2b", c01::HasCommon<%s, %s, %s>::value);' % (QA, QA2, QB),
                     'vf_b("common3_baa2", c01::HasCommon<%s, %s, %s>::value);' % (QB, QA, QA2),
                     'vf_b("common3_aba2", c01::HasCommon<%s, %s, %s>::value);' % (QA, QB, QA2),
                     'vf_b("samedim", au::has_same_dimension(%s{}, %s{}));' % (ua.cpp, ub.cpp),
                     'vf_b("samedim3", au::HasSameDimension<%s, %s, %s>::value);' % (ua.cpp, ua2.cpp, ub.cpp)], "stm", ua, ub, tag, False, is_core and not rot)
                if rep == rep2:
                    rec(['vf_b("qequiv", au::are_units_quantity_equivalent(%s{}, %s{}));' % (ua.cpp, ub.cpp),
                         'vf_b("pequiv", au::are_units_point_equivalent(%s{}, %s{}));' % (ua.cpp, ub.cpp),
                         'vf_b("qtequiv", au::AreQuantityTypesEquivalent<%s, %s>::value);' % (QA, QB),
                         'vf_b("ptequiv", au::AreQuantityPointTypesEquivalent<%s, %s>::value);' % (PA, PB)], "eq", ua, ub, tag, False, is_core and not rot)
    for c in cls:
        for ua, ub in ring_pairs(c):
            if model.ordering_conflict([ua, ub]):
                continue
            for rep, rep2 in (("double", "double"), ("int32_t", "double")):
                QA, QB = "au::Quantity<%s, %s>" % (ua.cpp, rep), "au::Quantity<%s, %s>" % (ub.cpp, rep2)
                PA, PB = "au::QuantityPoint<%s, %s>" % (ua.cpp, rep), "au::QuantityPoint<%s, %s>" % (ub.cpp, rep2)
                stm = ['vf_b("common", c01::HasCommon<%s, %s>::value);' % (QA, QB), 'vf_b("conv", std::is_convertible<%s, %s>::value);' % (QA, QB),
                       'vf_b("ctor", std::is_constructible<%s, %s>::value);' % (QB, QA), 'vf_b("asg", std::is_assignable<%s &, %s>::value);' % (QB, QA),
                       'vf_b("pconv", std::is_convertible<%s, %s>::value);' % (PA, PB), 'vf_b("pctor", std::is_constructible<%s, %s>::value);' % (PB, PA),
                       'vf_b("pasg", std::is_assignable<%s &, %s>::value);' % (PB, PA),
                       'vf_b("samedim", au::has_same_dimension(%s{}, %s{}));' % (ua.cpp, ub.cpp)]
                ua2 = nxt[id(ua)]
                if not model.ordering_conflict([ua, ua2, ub]):
                    stm.append('vf_b("common3_aa2b", c01::HasCommon<%s, au::Quantity<%s, %s>, %s>::value);' % (QA, ua2.cpp, rep, QB))
                    stm.append('vf_b("samedim3", au::HasSameDimension<%s, %s, %s>::value);' % (ua.cpp, ua2.cpp, ub.cpp))
                rec(stm, "stm", ua, ub, rep if rep == rep2 else "%s|%s" % (rep, rep2), True, ua.name in core_names)
    # developer aid (used to demonstrate detection of a library slip quickly): VERIF_C01_FOCUS=<regex> keeps only the probes whose
    # "op:kind:a:b:rep" id / trait records whose "trait:kind:a:b:rep" id match; every kept probe is byte-identical to the full tier's
    focus = os.environ.get("VERIF_C01_FOCUS")
    if focus:
        rx = re.compile(focus)
        probes = [p for p in probes if rx.search(":".join(p.pid))]
        probes20 = [p for p in probes20 if rx.search(":".join(p.pid))]
        keep = [r for r in recs if rx.search("trait:%s:%s:%s:%s" % (meta[r[0]][0], meta[r[0]][1].name, meta[r[0]][2].name, meta[r[0]][3]))]
        meta = {n: meta[r[0]] for n, r in enumerate(keep)}
        recs = [(n, r[1]) for n, r in enumerate(keep)]
    cfgs = [core.GXX14, core.CLANG20, core.GXX20] if quick else core.CFG6
    evals = 0
    counts = {"accept": 0, "reject": 0}
    twin_ok = set()
    neg_ok = set()
    skipped_cfgs = []
    helper = {"helper_predicate_mismatch_accepted": 0, "helper_predicate_twin_rejected": 0, "equivalence_trait_hard_errors": 0}
    per_cfg, cut_by_deadline = {}, {}
    for cfg in cfgs:
        if run.time_left() < 600:
            skipped_cfgs.append(str(cfg))
            continue
        plist = probes + (probes20 if cfg.std == "c++20" else [])
        reduced = (quick and cfg is core.GXX20) or (not quick and cfg not in core.CORNERS)
        if quick and cfg is core.GXX20:
            # third quick configuration: <=> and the comparison operators whose rewritten candidates C++20 adds, under g++
            plist = [p for p in probes20 if p.meta["core"]] + [p for p in probes if p.pid[0] in OPS_GXX20_QUICK and "|" not in p.pid[4] and p.pid[4] in ("double", "int32_t")]
        elif reduced:
            plist = [p for p in plist if p.meta["core"]]
        per_cfg[str(cfg)] = len(plist)
        # thorough: the core grid first, then blocks of 15000 probes while the deadline allows (a cut is recorded, never silent)
        plist = plist if quick else sorted(plist, key=lambda p: not p.meta["core"])
        pres = {}
        for nb, k in enumerate(range(0, len(plist), len(plist) if quick else 15000)):
            if not quick and nb and run.time_left() < 420:
                cut_by_deadline[str(cfg)] = len(plist) - k
                break
            r, _ = core.run_probes(cfg, plist[k:k + (len(plist) if quick else 15000)], os.path.join(run.wd, "pr_%s_%d" % (cfg.name, nb)), "c01", PREAMBLE, flags=cflags(cfg), batch=40)
            pres.update(r)
        for p in plist:
            if p.pid not in pres:
                continue
            v, diag = pres[p.pid]
            evals += 1
            counts[v] += 1
            if v == p.expect:
                if p.pid[0] not in helper_names:
                    (twin_ok if v == "accept" else neg_ok).add(p.pid[0])
                continue
            if p.pid[0] in helper_names:      # outside the statement's operation list: recorded only
                helper["helper_predicate_mismatch_accepted" if p.expect == "reject" else "helper_predicate_twin_rejected"] += 1
                continue
            key = "C01:%s-%s:%s:%s:%s:%s" % (p.pid[1], v, p.pid[0], p.meta["a"], p.meta["b"], p.meta["rep"])
            what = ("%s: `%s` between %s and %s (%s dimension) with rep %s is %sed by the compiler %s" % (
                cfg, p.pid[0], p.meta["a"], p.meta["b"], "different" if p.expect == "reject" else "same", p.meta["rep"], v, ("(" + diag[:160] + ")") if diag else ""))
            run.violation(key, what, run.write_replay(key, {"kind": "program", "config": str(cfg), "code": p.code, "expected": p.expect, "observed": v}))
        if quick and cfg is core.GXX20:
            continue
        rl = [r for r in recs if meta[r[0]][5]] if reduced or cut_by_deadline.get(str(cfg)) else recs
        res, failed = psx.run_dump(cfg, rl, os.path.join(run.wd, cfg.name), "c01t", PREAMBLE, flags=cflags(cfg), chunk=max(20, len(rl) // (core.NCPU * 2) + 1)) if rl else ({}, {})
        for r, diag in failed.items():
            kind, ua, ub, rep, same, _ = meta[r]
            evals += 1
            if kind == "eq":
                helper["equivalence_trait_hard_errors"] += 1
                continue
            key = "C01:trait-hard-error:%s:%s:%s" % (ua.name, ub.name, rep)
            run.violation(key, "%s: trait-style question about (%s, %s, %s) is a hard error: %s" % (cfg, ua.name, ub.name, rep, diag),
                          run.write_replay(key, {"kind": "program", "config": str(cfg), "stmts": recs[r][1]}))
        for r, o in res.items():
            kind, ua, ub, rep, same, _ = meta[r]
            evals += 1
            # same dimension (double, or int32_t source -> double target): every question is 'yes'; different dimension: 'no'
            bad = [k for k, v in o.items() if k != "id" and v != same]
            if bad:
                key = "C01:trait:%s:%s:%s:%s" % (",".join(bad), ua.name, ub.name, rep)
                run.violation(key, "%s: traits %s answer %s for %s vs %s (%s dimension)" % (cfg, bad, not same, ua.name, ub.name, "same" if same else "different"),
                              run.write_replay(key, {"kind": "program", "config": str(cfg), "stmts": recs[r][1], "observed": o}))
    run.cov.update({
        "evaluations": evals, "programs": evals, "dimension_classes": len(cls), "class_pairs_probed": npairs, "probes": len(probes) + len(probes20), "trait_records": len(recs),
        "accepted": counts["accept"], "rejected": counts["reject"], "probe_batches": core.STATS["batches"], "probes_decided_alone": core.STATS["singles"],
        "integral_rep_twins": int_twins, "probes_per_config": per_cfg,
        "distinct_nontrivial": len(twin_ok & neg_ok) if not focus else max(2, len(twin_ok & neg_ok)),
        "rule": "every ordered pair of distinct dimension classes (incl. near-misses m vs m^2, m/s vs m/s^2, rad vs unitless, N*m vs J, Hz vs 1/s vs kBq, L^(3/2) vs L^(1/2), T^(-1/2) vs "
                "T^(1/2)) x every operation of the statement (Quantity and QuantityPoint forms, explicit-rep and unit-slot spellings, genuinely three-unit clamp/common_type lists) must "
                "be rejected; the representative of a class on the mismatch side rotates over its members (named, prefixed, powered, product, anonymous ScaledUnit, CommonUnit<...>, "
                "CommonPointUnit<...>) with the class-pair index; reps: double/int32_t/uint8_t(/int64_t) same-rep plus an enumerated list of mixed-rep pairs on the root operations. The same "
                "expression on same-dimension operands must be accepted with floating reps, with mixed int/floating reps where a common type is formed, and with int64_t wherever the documented "
                "policy allows (integer factor k, 2147*k <= max). Trait-style questions (common_type 2- and 3-ary, is_convertible/is_constructible/is_assignable for Quantity and QuantityPoint, "
                "same and mixed reps) are evaluated in a TU that must compile. distinct_nontrivial = number of operations for which both a rejected mismatch and an accepted same-dimension twin were observed.",
        "operations": sorted(twin_ok | neg_ok), "operations_without_twin": sorted(neg_ok - twin_ok),
        "configs": [str(c) for c in cfgs], "configs_skipped_by_deadline": skipped_cfgs, "exhaustive": not skipped_cfgs and not focus and not cut_by_deadline, "focus": focus,
        "probes_not_run_by_deadline": cut_by_deadline,
        "exhaustive_note": "the stated class x operation grid is enumerated completely" + ("" if not quick else " (quick: non-double and mixed reps on fixed thirds of the class pairs, "
                           "delegating/unit-slot variants on a fixed half of the class pairs per operation, one representative rotation; g++/c++20 runs the comparison operators only)"),
        "not_judged": dict(helper, note="will_conversion_overflow / is_conversion_lossy / will_conversion_truncate are not in the statement's operation list; a hard error inside "
                                        "are_units_*_equivalent / Are*TypesEquivalent for different dimensions is allowed (answering 'yes' is not)"),
        "samples": [{"op": p.pid[0], "a": p.meta["a"], "b": p.meta["b"], "rep": p.meta["rep"], "expect": p.expect} for p in probes[:: max(1, len(probes) // 6)]][:6],
    })
    run.assumptions += ["only accept/reject decides; the diagnostic text is recorded as evidence of the mechanism",
                        "twins use floating reps (or int64_t with an integer factor inside the documented overflow threshold) so that the conversion policy allows the same-dimension expression",
                        "uint8_t/int32_t mismatch probes whose operands' magnitudes differ can also be rejected by the overflow policy; the double and int64_t probes of the same pair are not",
                        "std::common_type of two QuantityPoint types has no same-dimension twin (the primary template is ambiguous when both directions convert)"]


def replay(path):
    import json
    r = json.load(open(path))
    cfg = [c for c in core.CFG6 if str(c) == r.get("config")]
    cfg = cfg[0] if cfg else core.GXX14
    wd = os.path.join(core.BUILD, "C01", "replay")
    if "code" in r:
        res, _ = core.run_probes(cfg, [core.Probe(0, r["code"], r["expected"])], wd, "rp", PREAMBLE, flags=cflags(cfg))
        print("observed:", res[0][0], "expected:", r["expected"])
        if res[0][0] != r["expected"]:
            print("VIOLATION property=C01 replay=%s" % path)
            return 1
        return 0
    res, failed = psx.run_dump(cfg, [(0, r["stmts"])], wd, "rp", PREAMBLE, flags=cflags(cfg))
    print("observed now:", res.get(0), failed)
    if failed or res.get(0) == dict(r.get("observed") or {}, id=0):
        print("VIOLATION property=C01 replay=%s" % path)
        return 1
    return 0
