"""C01 — dimension mismatches are rejected at compile time (accept/reject probe grid)."""
import itertools
import os
from fractions import Fraction as Fr

from .. import core, model, psx
from ..model import LIB_BY_STEM as U
from ..sweep34 import cflags
from . import c07

LEVEL = "exploration"

PREAMBLE = c07.PREAMBLE + r'''
using au::min; using au::max; using au::clamp;
namespace c01 {
template <typename A, typename B, typename = void> struct HasCommon : std::false_type {};
template <typename A, typename B>
struct HasCommon<A, B, vf::void_t<typename std::common_type<A, B>::type>> : std::true_type {};
}
'''


def unit(name, cpp, dim, mag=None):
    return model.Unit(name, cpp, dim, mag or {}, 0, None, named=False)


def classes(tier):
    """dimension class -> list of >= 2 distinct same-dimension units (first is the representative)."""
    d = model.d
    P = {p[0]: p for p in model.ALL_PREFIXES}
    cls = [
        [U["meters"], U["feet"], unit("rtm*rtm", "decltype(au::root<2>(au::Meters{}) * au::root<2>(au::Meters{}))", d(L=1))],
        [unit("m^2", "decltype(au::pow<2>(au::Meters{}))", d(L=2)), unit("ft*in", "decltype(au::Feet{} * au::Inches{})", d(L=2), model.vmul(U["feet"].mag, U["inches"].mag))],
        [unit("m/s", "decltype(au::Meters{} / au::Seconds{})", d(L=1, T=-1)), U["knots"]],
        [unit("m/s^2", "decltype(au::Meters{} / au::pow<2>(au::Seconds{}))", d(L=1, T=-2)), U["standard_gravity"]],
        [U["seconds"], U["minutes"]],
        [U["radians"], U["degrees"]],
        [U["unos"], U["percent"]],
        [unit("N*m", "decltype(au::Newtons{} * au::Meters{})", d(M=1, L=2, T=-2), model.mag_int(1000)), U["joules"]],
        [U["hertz"], unit("1/s", "decltype(au::pow<-1>(au::Seconds{}))", d(T=-1)), model.prefixed(P["Kilo"], U["becquerel"])],
        [model.prefixed(P["Kilo"], U["grams"]), U["pounds_mass"]],
        [U["celsius"], U["kelvins"], U["fahrenheit"]],      # units with a non-trivial origin (point semantics differ)
        # rational powers with a numerator other than 1 (the dimension of RatioPow<B,N,D> must use N): L^(3/2) vs L^(1/2)
        [unit("in^(3/2)", "decltype(au::root<2>(au::pow<3>(au::Inches{})))", d(L=Fr(3, 2)), model.vpow(U["inches"].mag, Fr(3, 2))),
         unit("rt(m^3)", "decltype(au::root<2>(au::pow<3>(au::Meters{})) * au::mag<5>())", d(L=Fr(3, 2)), model.mag_int(5))],
        [unit("rt(in)", "decltype(au::root<2>(au::Inches{}))", d(L=Fr(1, 2)), model.vpow(U["inches"].mag, Fr(1, 2))),
         unit("rt(ft)", "decltype(au::root<2>(au::Feet{}))", d(L=Fr(1, 2)), model.vpow(U["feet"].mag, Fr(1, 2)))],
    ]
    if tier == "thorough":
        seen = {model.dim_key(c[0].dim) for c in cls}
        extra = {}
        for u in model.LIB:
            k = model.dim_key(u.dim)
            if k not in seen:
                extra.setdefault(k, []).append(u)
        for k, us in sorted(extra.items()):
            if len(us) == 1:
                us = us + [model.scaled(us[0], 3, 7)]
            cls.append(us[:2])
    return cls


BIN_OPS = [("+", "(void)(a + b);"), ("-", "(void)(a - b);"), ("==", "(void)(a == b);"), ("!=", "(void)(a != b);"), ("<", "(void)(a < b);"),
           ("<=", "(void)(a <= b);"), (">", "(void)(a > b);"), (">=", "(void)(a >= b);"), ("+=", "a += b;"), ("-=", "a -= b;"),
           ("implicit-ctor", "QA x = b; (void)x;"), ("explicit-ctor", "QA x{b}; (void)x;"), ("assign", "a = b;"),
           (".as", "(void)a.as(UB{});"), (".in", "(void)a.in(UB{});"), (".as<R>", "(void)a.template as<R>(UB{});"), (".in<R>", "(void)a.template in<R>(UB{});"),
           (".coerce_as", "(void)a.coerce_as(UB{});"), (".coerce_in", "(void)a.coerce_in(UB{});"), (".coerce_as<R>", "(void)a.template coerce_as<R>(UB{});"),
           ("min", "(void)min(a, b);"), ("max", "(void)max(a, b);"), ("clamp", "(void)clamp(a, b, b);"), ("clamp2", "(void)clamp(b, a, a);"),
           ("round_as", "(void)au::round_as(UB{}, a);"), ("round_in", "(void)au::round_in(UB{}, a);"), ("floor_as", "(void)au::floor_as(UB{}, a);"),
           ("floor_in", "(void)au::floor_in(UB{}, a);"), ("ceil_as", "(void)au::ceil_as(UB{}, a);"), ("ceil_in", "(void)au::ceil_in(UB{}, a);"),
           ("round_as<R>", "(void)au::round_as<R>(UB{}, a);"),
           ("will_overflow", "(void)au::will_conversion_overflow(a, UB{});"), ("is_lossy", "(void)au::is_conversion_lossy(a, UB{});")]
# .data_in needs quantity-equivalent (not merely same-dimension) units for its twin
DATA_OPS = [(".data_in", "(void)a.data_in(UB{});"), (".data_in-const", "const QA ca = a; (void)ca.data_in(UB{});"),
            (".data_in-maker", "(void)a.data_in(au::QuantityMaker<UB>{});"), ("pt.data_in", "(void)pa.data_in(UB{});"),
            ("pt.data_in-maker", "(void)pa.data_in(au::QuantityPointMaker<UB>{});")]
FLOAT_OPS = [("hypot", "(void)au::hypot(a, b);"), ("fmod", "(void)au::fmod(a, b);"), ("remainder", "(void)au::remainder(a, b);"),
             ("arctan2", "(void)au::arctan2(a, b);")]
INT_OPS = [("%", "(void)(a % b);")]
CPP20_OPS = [("<=>", "(void)(a <=> b);")]
INV_OPS = [("inverse_as", "(void)au::inverse_as(UB{}, a);"), ("inverse_in", "(void)au::inverse_in(UB{}, a);"),
           ("inverse_as<R>", "(void)au::inverse_as<R>(UB{}, a);")]
POINT_OPS = [("pt-", "(void)(pa - pb);"), ("pt==", "(void)(pa == pb);"), ("pt!=", "(void)(pa != pb);"), ("pt<", "(void)(pa < pb);"), ("pt<=", "(void)(pa <= pb);"),
             ("pt>", "(void)(pa > pb);"), ("pt>=", "(void)(pa >= pb);"), ("pt-ctor", "PA x = pb; (void)x;"), ("pt-assign", "pa = pb;"),
             ("pt.as", "(void)pa.as(UB{});"), ("pt.in", "(void)pa.in(UB{});"), ("pt.coerce_as", "(void)pa.coerce_as(UB{});"), ("pt.coerce_in<R>", "(void)pa.template coerce_in<R>(UB{});"),
             ("pt+q", "(void)(pa + b);"), ("q+pt", "(void)(b + pa);"), ("pt-q", "(void)(pa - b);"), ("pt+=q", "pa += b;"),
             ("pt-round_as", "(void)au::round_as(UB{}, pa);")]
POINT20 = [("pt<=>", "(void)(pa <=> pb);")]


def body(ua, ub, rep, stmt):
    return ("using UA = %s; using UB = %s; using R = %s; using QA = au::Quantity<UA, R>; using QB = au::Quantity<UB, R>; "
            "using PA = au::QuantityPoint<UA, R>; using PB = au::QuantityPoint<UB, R>; "
            "QA a = au::make_quantity<UA>(static_cast<R>(3)); QB b = au::make_quantity<UB>(static_cast<R>(2)); "
            "PA pa = au::make_quantity_point<UA>(static_cast<R>(3)); PB pb = au::make_quantity_point<UB>(static_cast<R>(2)); "
            "(void)a; (void)b; (void)pa; (void)pb; %s" % (ua.cpp, ub.cpp, rep, stmt))


def check(run):
    tier = run.tier
    cls = classes(tier)
    # thorough: the 10 core classes get 4 reps on all six configurations; the extended classes (one per remaining
    # library dimension) get rep double on the two corner configurations; see the sizing note in DESIGN.md section 13
    reps_neg = ["double", "int32_t", "uint8_t"] if tier == "quick" else ["double", "int32_t", "uint8_t", "int64_t"]
    ncore = 13
    probes20, probes = [], []     # C++20-only probes kept apart

    core_names = set(u.name for c in cls[:ncore] for u in c)

    def add(lst, pid, ua, ub, rep, stmt, expect):
        lst.append(core.Probe(pid, body(ua, ub, rep, stmt), expect, {"a": ua.name, "b": ub.name, "rep": rep, "op": pid[0],
                                                                     "dedup": tuple(sorted((ua.name, ub.name))),
                                                                     "core": pid[1] != "lib" and ua.name in core_names and (ub.name in core_names or pid[1] == "twin")}))

    # negative: every ordered pair of distinct classes x every op
    for i, j in itertools.permutations(range(len(cls)), 2):
        ua, ub = cls[i][0], cls[j][0]
        for rep in reps_neg:
            if tier == "quick" and rep != "double" and (i + j) % 3:
                continue
            if (i >= ncore or j >= ncore) and rep != "double":
                continue
            ops = list(BIN_OPS) + (FLOAT_OPS if rep in core.F3 else INT_OPS) + POINT_OPS + DATA_OPS
            for name, stmt in ops:
                add(probes, (name, "neg", ua.name, ub.name, rep), ua, ub, rep, stmt, "reject")
            if model.dim_key(ub.dim) != model.dim_key(model.vinv(ua.dim)):     # inverse needs dim(B) == 1/dim(A)
                for name, stmt in INV_OPS:
                    add(probes, (name, "neg", ua.name, ub.name, rep), ua, ub, rep, stmt, "reject")
            for name, stmt in CPP20_OPS + POINT20:
                add(probes20, (name, "neg", ua.name, ub.name, rep), ua, ub, rep, stmt, "reject")
    # positive twins: same expression, same-dimension operands (floating rep: the policy always allows it)
    for c in cls:
        for ua, ub in itertools.permutations(c, 2):
            if model.ordering_conflict([ua, ub]):
                continue
            for rep in ("double", "float"):
                data_ops = [o for o in DATA_OPS if model.same_quantity(ua, ub) and (not o[0].startswith("pt.") or ua.origin == ub.origin)]
                for name, stmt in BIN_OPS + FLOAT_OPS + POINT_OPS + data_ops:
                    add(probes, (name, "twin", ua.name, ub.name, rep), ua, ub, rep, stmt, "accept")
                for name, stmt in CPP20_OPS + POINT20:
                    add(probes20, (name, "twin", ua.name, ub.name, rep), ua, ub, rep, stmt, "accept")
            # % needs integral reps: only where the documented policy allows the conversion to the common unit
            if model.mag_is_rational(model.vdiv(ua.mag, ub.mag)):
                g = model.mag_gcd([ua.mag, ub.mag])
                ks = [model.mag_fraction(model.vdiv(x.mag, g)) for x in (ua, ub)]
                if all(k.denominator == 1 and 2147 * k <= core.tmax("int64_t") for k in ks):
                    add(probes, ("%", "twin", ua.name, ub.name, "int64_t"), ua, ub, "int64_t", INT_OPS[0][1], "accept")
        # inverse twins: target = inverse unit of the source
        ua = c[0]
        inv = unit("1/" + ua.name, "decltype(au::pow<-1>(%s{}))" % ua.cpp, model.vinv(ua.dim), model.vinv(ua.mag))
        for name, stmt in INV_OPS:
            add(probes, (name, "twin", ua.name, inv.name, "double"), ua, inv, "double", stmt, "accept")
    # all ordered pairs of library units x the 5 root operations (thorough)
    if tier == "thorough":
        roots = [b for b in BIN_OPS if b[0] in ("+", "==", ".in", "implicit-ctor")]
        for ua, ub in itertools.permutations(model.LIB, 2):
            same = model.dim_key(ua.dim) == model.dim_key(ub.dim)
            if same and model.ordering_conflict([ua, ub]):
                continue
            for name, stmt in roots:
                add(probes, (name, "lib", ua.name, ub.name, "double"), ua, ub, "double", stmt, "accept" if same else "reject")
    # trait-style questions: must answer 'no' without a hard error
    recs, meta = [], {}
    rid = 0
    for i, j in itertools.permutations(range(len(cls)), 2):
        ua, ub = cls[i][0], cls[j][0]
        for rep in ("double", "int32_t"):
            QA, QB = "au::Quantity<%s, %s>" % (ua.cpp, rep), "au::Quantity<%s, %s>" % (ub.cpp, rep)
            PA, PB = "au::QuantityPoint<%s, %s>" % (ua.cpp, rep), "au::QuantityPoint<%s, %s>" % (ub.cpp, rep)
            stm = ['vf_b("common", c01::HasCommon<%s, %s>::value);' % (QA, QB),
                   'vf_b("conv", std::is_convertible<%s, %s>::value);' % (QA, QB),
                   'vf_b("ctor", std::is_constructible<%s, %s>::value);' % (QB, QA),
                   'vf_b("asg", std::is_assignable<%s &, %s>::value);' % (QB, QA),
                   'vf_b("pconv", std::is_convertible<%s, %s>::value);' % (PA, PB),
                   'vf_b("pctor", std::is_constructible<%s, %s>::value);' % (PB, PA),
                   'vf_b("samedim", au::has_same_dimension(%s{}, %s{}));' % (ua.cpp, ub.cpp),
                   'vf_b("qequiv", au::are_units_quantity_equivalent(%s{}, %s{}));' % (ua.cpp, ub.cpp),
                   'vf_b("pequiv", au::are_units_point_equivalent(%s{}, %s{}));' % (ua.cpp, ub.cpp),
                   'vf_b("qtequiv", au::AreQuantityTypesEquivalent<%s, %s>::value);' % (QA, QB.replace(rep, rep)),
                   'vf_b("ptequiv", au::AreQuantityPointTypesEquivalent<%s, %s>::value);' % (PA, PB)]
            recs.append((rid, stm))
            meta[rid] = (ua, ub, rep, False)
            rid += 1
    for c in cls:
        for ua, ub in itertools.permutations(c, 2):
            if model.ordering_conflict([ua, ub]):
                continue
            QA, QB = "au::Quantity<%s, double>" % ua.cpp, "au::Quantity<%s, double>" % ub.cpp
            recs.append((rid, ['vf_b("common", c01::HasCommon<%s, %s>::value);' % (QA, QB), 'vf_b("conv", std::is_convertible<%s, %s>::value);' % (QA, QB),
                               'vf_b("ctor", std::is_constructible<%s, %s>::value);' % (QB, QA), 'vf_b("asg", std::is_assignable<%s &, %s>::value);' % (QB, QA),
                               'vf_b("samedim", au::has_same_dimension(%s{}, %s{}));' % (ua.cpp, ub.cpp)]))
            meta[rid] = (ua, ub, "double", True)
            rid += 1
    cfgs = core.CORNERS if tier == "quick" else core.CFG6
    evals = 0
    counts = {"accept": 0, "reject": 0}
    twin_ok = set()
    neg_ok = set()
    skipped_cfgs = []
    for cfg in cfgs:
        if run.time_left() < 600:
            skipped_cfgs.append(str(cfg))
            continue
        plist = probes + (probes20 if cfg.std == "c++20" else [])
        if tier == "thorough" and cfg not in core.CORNERS:
            plist = [p for p in plist if p.meta["core"]]
        pres, _ = core.run_probes(cfg, plist, os.path.join(run.wd, "pr_" + cfg.name), "c01", PREAMBLE, flags=cflags(cfg), batch=40)
        for p in plist:
            v, diag = pres[p.pid]
            evals += 1
            counts[v] += 1
            if v == p.expect:
                (twin_ok if v == "accept" else neg_ok).add(p.pid[0])
                continue
            key = "C01:%s-%s:%s:%s:%s:%s" % (p.pid[1], v, p.pid[0], p.meta["a"], p.meta["b"], p.meta["rep"])
            what = ("%s: `%s` between %s and %s (%s dimension) with rep %s is %sed by the compiler %s" % (
                cfg, p.pid[0], p.meta["a"], p.meta["b"], "different" if p.expect == "reject" else "same", p.meta["rep"], v, ("(" + diag[:160] + ")") if diag else ""))
            run.violation(key, what, run.write_replay(key, {"kind": "program", "config": str(cfg), "code": p.code, "expected": p.expect, "observed": v}))
        res, failed = psx.run_dump(cfg, recs, os.path.join(run.wd, cfg.name), "c01t", PREAMBLE, flags=cflags(cfg), chunk=max(20, len(recs) // (core.NCPU * 2) + 1))
        for r, diag in failed.items():
            ua, ub, rep, same = meta[r]
            key = "C01:trait-hard-error:%s:%s:%s" % (ua.name, ub.name, rep)
            run.violation(key, "%s: trait-style question about (%s, %s, %s) is a hard error: %s" % (cfg, ua.name, ub.name, rep, diag),
                          run.write_replay(key, {"kind": "program", "config": str(cfg), "stmts": recs[r][1]}))
        for r, o in res.items():
            ua, ub, rep, same = meta[r]
            evals += 1
            bad = [k for k, v in o.items() if k != "id" and v != same]
            if bad:
                key = "C01:trait:%s:%s:%s:%s" % (",".join(bad), ua.name, ub.name, rep)
                run.violation(key, "%s: traits %s answer %s for %s vs %s (%s dimension)" % (cfg, bad, not same, ua.name, ub.name, "same" if same else "different"),
                              run.write_replay(key, {"kind": "program", "config": str(cfg), "stmts": recs[r][1], "observed": o}))
    run.cov.update({
        "evaluations": evals, "programs": evals, "dimension_classes": len(cls), "probes": len(probes) + len(probes20), "trait_records": len(recs),
        "accepted": counts["accept"], "rejected": counts["reject"], "probe_batches": core.STATS["batches"], "probes_decided_alone": core.STATS["singles"],
        "distinct_nontrivial": len(twin_ok & neg_ok),
        "rule": "every ordered pair of distinct dimension classes (representatives incl. near-misses m vs m^2, m/s vs m/s^2, rad vs unitless, N*m vs J, Hz vs 1/s vs kBq) x every "
                "operation of the statement (Quantity and QuantityPoint forms) must be rejected; the same expression on same-dimension operands with a floating rep (integral "
                "for %, where the documented policy allows) must be accepted; trait-style questions are evaluated in a TU that must compile. distinct_nontrivial = number of "
                "operations for which both a rejected mismatch and an accepted same-dimension twin were observed.",
        "operations": sorted(twin_ok | neg_ok), "configs": [str(c) for c in cfgs], "configs_skipped_by_deadline": skipped_cfgs, "exhaustive": not skipped_cfgs,
        "exhaustive_note": "the stated class x operation grid is enumerated completely" + ("" if tier == "thorough" else " (quick: non-double reps on a fixed third of the class pairs)"),
        "samples": [{"op": p.pid[0], "a": p.meta["a"], "b": p.meta["b"], "rep": p.meta["rep"], "expect": p.expect} for p in probes[:: max(1, len(probes) // 6)]][:6],
    })
    run.assumptions += ["only accept/reject decides; the diagnostic text is recorded as evidence of the mechanism",
                        "twins use floating reps so that the conversion policy always allows the same-dimension expression"]


def replay(path):
    import json
    r = json.load(open(path))
    cfg = [c for c in core.CFG6 if str(c) == r.get("config")]
    cfg = cfg[0] if cfg else core.GXX14
    wd = os.path.join(core.BUILD, "C01", "replay")
    if "code" in r:
        res, _ = core.run_probes(cfg, [core.Probe(0, r["code"], r["expected"])], wd, "rp", PREAMBLE, flags=cflags(cfg))
        print("observed:", res[0][0], "expected:", r["expected"])
        if res[0][0] != r["expected"]:
            print("VIOLATION property=C01 replay=%s" % path)
            return 1
        return 0
    res, failed = psx.run_dump(cfg, [(0, r["stmts"])], wd, "rp", PREAMBLE, flags=cflags(cfg))
    print("observed now:", res.get(0), failed)
    if failed or res.get(0) == r.get("observed"):
        print("VIOLATION property=C01 replay=%s" % path)
        return 1
    return 0
