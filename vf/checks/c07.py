"""C07 — common unit is the gcd unit, symmetric in its inputs.

Explicit-state exploration: states = multisets of same-dimension units (up to a size bound),
transitions = every way of forming CommonUnitT over a state (each permutation, a repetition pattern,
every nesting split, std::common_type of the Quantity types).  Oracle: base-wise minimum of exact
prime-exponent vectors (vf/model.py), evaluated only when all pairwise ratios are rational.
"""
import itertools
import os
from fractions import Fraction as Fr

from .. import core, model, psx
from ..model import LIB_BY_STEM as U
from ..sweep34 import cflags
from .c06 import mag_expr

LEVEL = "model_checking"

PREAMBLE = r'''
namespace gen {
template <typename T> struct WugLabel { static constexpr const char label[] = "wug"; };
template <typename T> constexpr const char WugLabel<T>::label[];
// named + labelled, magnitude 35/3 m (nothing else has it)
struct Wugs : decltype(au::Meters{} * au::mag<35>() / au::mag<3>()), WugLabel<void> { using WugLabel<void>::label; };
// named + unlabelled, magnitude 11 m
struct Zorks : au::UnitImpl<au::Length, decltype(au::mag<11>())> {};
// named + unlabelled, 77/2 s
struct Blips : au::UnitImpl<au::Time, decltype(au::mag<77>() / au::mag<2>())> {};
}
'''


# generated units used by C07 alone
PREAMBLE7 = PREAMBLE + r'''
namespace gen {
// named, magnitude 1, origin 5/4 K (Kelvins has origin 0, Celsius 273.15 K): ordered by origin only
struct OffsetK : au::Kelvins {
    static constexpr auto origin() { return (au::kelvins / au::mag<4>())(5); }
};
}
'''


def gen_unit(name, cpp, dim, mag):
    return model.Unit(name, cpp, dim, mag, 0, None, named=True)


def anon(base, m, name):
    """anonymous scaled unit base * (magnitude m)"""
    return model.Unit(name, "decltype(%s{} * (%s))" % (base.cpp, mag_expr(m)), base.dim,
                      model.vmul(base.mag, m), base.origin, None, named=False)


def buckets(tier):
    P = {p[0]: p for p in model.ALL_PREFIXES}
    m, s = U["meters"], U["seconds"]
    two40 = model.vdiv(model.mag_int(2 ** 40), model.mag_int(2 ** 40 - 1))
    length = [m, U["feet"], U["inches"], U["yards"], U["miles"], U["nautical_miles"],
              model.prefixed(P["Kilo"], m), model.prefixed(P["Centi"], m),
              anon(m, model.mag_ratio(3, 7), "m*3/7"), anon(U["inches"], two40, "in*2^40/(2^40-1)"),
              gen_unit("wugs", "gen::Wugs", m.dim, model.mag_ratio(35, 3)),
              gen_unit("zorks", "gen::Zorks", m.dim, model.mag_int(11)),
              anon(m, dict(model.MAG_PI), "m*pi"), anon(m, {2: Fr(1, 2)}, "m*sqrt2"),
              anon(m, {2: Fr(1, 2), 3: Fr(1)}, "m*3sqrt2"), U["fathoms"], U["furlongs"]]
    time = [s, U["minutes"], U["hours"], U["days"], model.prefixed(P["Milli"], s),
            model.prefixed(P["Nano"], s), anon(s, model.mag_ratio(3, 7), "s*3/7"),
            anon(s, model.mag_ratio(1001, 30000), "s*1001/30000"),
            gen_unit("blips", "gen::Blips", s.dim, model.mag_ratio(77, 2)),
            anon(U["minutes"], model.mag_ratio(1, 7), "min/7"), model.prefixed(P["Kilo"], s),
            anon(s, model.vmul(model.MAG_PI, model.mag_int(2)), "s*2pi")]
    angle = [U["radians"], U["degrees"], U["revolutions"], U["arcminutes"], U["arcseconds"],
             model.prefixed(P["Milli"], U["radians"]), anon(U["degrees"], model.mag_ratio(1, 7), "deg/7"),
             anon(U["radians"], model.mag_ratio(2, 3), "rad*2/3")]
    data = [U["bits"], U["bytes"], model.prefixed(P["Kibi"], U["bytes"]), model.prefixed(P["Mebi"], U["bits"]),
            model.prefixed(P["Kilo"], U["bits"]), anon(U["bytes"], model.mag_ratio(3, 5), "B*3/5"),
            model.prefixed(P["Gibi"], U["bytes"])]
    # units that differ ONLY in origin (same dimension, magnitude and, for the anonymous ones, scale factor):
    # quantity-wise they are equivalent, so every tie-breaker of the canonical ordering is exercised
    K, C, F = U["kelvins"], U["celsius"], U["fahrenheit"]
    temp = [K, C, F, anon(C, model.mag_int(2), "degC*2"), anon(K, model.mag_int(2), "K*2"), anon(C, model.mag_int(3), "degC*3"),
            model.prefixed(P["Milli"], K), model.prefixed(P["Milli"], C), anon(K, model.mag_ratio(5, 7), "K*5/7"),
            anon(C, model.mag_ratio(5, 7), "degC*5/7"), anon(F, model.mag_int(2), "degF*2")]
    # distinct ANONYMOUS compound units with identical dimension and magnitude (only the last tie-breaker of the
    # canonical ordering, the product structure itself, separates them), next to named equivalents
    def prod(name, expr, dim, mag):
        return model.Unit(name, "decltype(%s)" % expr, dim, mag, 0, None, named=False)
    E = model.d(M=1, L=2, T=-2)
    kg = model.prefixed(P["Kilo"], U["grams"])
    energy = [U["joules"], prod("N*m", "au::Newtons{} * au::Meters{}", E, model.mag_int(1000)),
              prod("W*s", "au::Watts{} * au::Seconds{}", E, model.mag_int(1000)),
              prod("kg*m^2/s^2", "au::Kilo<au::Grams>{} * au::pow<2>(au::Meters{}) / au::pow<2>(au::Seconds{})", E, model.mag_int(1000)),
              prod("g*km*m/s^2", "au::Grams{} * au::Kilo<au::Meters>{} * au::Meters{} / au::pow<2>(au::Seconds{})", E, model.mag_int(1000)),
              prod("V*C", "au::Volts{} * au::Coulombs{}", E, model.mag_int(1000)),
              prod("lbf*ft", "au::PoundsForce{} * au::Feet{}", E, model.vmul(U["pounds_force"].mag, U["feet"].mag)),
              model.prefixed(P["Kilo"], U["joules"])]
    speed = [prod("m/s", "au::Meters{} / au::Seconds{}", model.d(L=1, T=-1), {}), prod("m*Hz", "au::Meters{} * au::Hertz{}", model.d(L=1, T=-1), {}),
             U["knots"], prod("km/h", "au::Kilo<au::Meters>{} / au::Hours{}", model.d(L=1, T=-1), model.mag_ratio(1000, 3600)),
             prod("mi/h", "au::Miles{} / au::Hours{}", model.d(L=1, T=-1), model.vdiv(U["miles"].mag, model.mag_int(3600))),
             prod("ft*Hz", "au::Feet{} * au::Hertz{}", model.d(L=1, T=-1), U["feet"].mag)]
    if tier == "quick":
        return {"length": length[:13], "time": time[:9], "angle": angle[:6], "temperature": temp[:8], "energy": energy[:6], "speed": speed[:5]}
    return {"length": length, "time": time, "angle": angle, "data": data, "temperature": temp, "energy": energy, "speed": speed}


def rank(u):
    """Model of the kind of type a unit is (the library orders quantity-equivalent units by kind first)."""
    return getattr(u, "rank", 0 if u.named else None)


def tagged(u, rank, sf=None):
    u.rank, u.sf = rank, sf
    return u


def conflict(units):
    """Documented exclusion, generalised to every kind of unit type: two distinct types of the same kind with identical
    dimension, magnitude and origin (and, for two scaled units, identical scale factor) cannot be ordered, unless both are
    compound products (which are ordered structurally)."""
    if model.ordering_conflict(units):
        return True
    for i in range(len(units)):
        for j in range(i + 1, len(units)):
            a, b = units[i], units[j]
            ra, rb = rank(a), rank(b)
            if ra is None or rb is None or ra != rb or ra in (0, 1) or a.cpp == b.cpp:
                continue
            if model.same_quantity(a, b) and a.origin == b.origin:
                if ra == 3 and getattr(a, "sf", None) is not None and model.mag_key(a.sf) != model.mag_key(getattr(b, "sf", None) or {}):
                    continue
                return True
    return False


def extra_buckets(tier):
    """Round-3 alphabets: every kind of unit type as a list element (Pow, RatioPow, bare UnitImpl, UnitProduct<>, CommonUnit,
    CommonPointUnit, ScaledUnit of those), pi powers of both signs, scale factors with a prime next to 2^40, named units with
    origin and scale."""
    P = {p[0]: p for p in model.ALL_PREFIXES}
    m, s, inch, ft = U["meters"], U["seconds"], U["inches"], U["feet"]
    L3, Lh, Tm1 = model.d(L=3), {model.L: Fr(1, 2)}, model.d(T=-1)

    def typ(name, expr, dim, mag, rk, origin=0, sf=None, is_type=False):
        return tagged(model.Unit(name, expr if is_type else "decltype(%s)" % expr, dim, mag, origin, None, named=False), rk, sf)

    def sc(base, mg, name):     # ScaledUnit over an arbitrary base
        return tagged(anon(base, mg, name), 3, mg)
    cm, dm, mm_ = (model.prefixed(P[x], m) for x in ("Centi", "Deci", "Milli"))
    ms = model.prefixed(P["Milli"], s)
    cm3 = typ("cm^3", "au::pow<3>(au::Centi<au::Meters>{})", L3, model.vpow(cm.mag, 3), 4)
    volume = [U["liters"], cm3, typ("dm^3", "au::pow<3>(au::Deci<au::Meters>{})", L3, model.vpow(dm.mag, 3), 4),
              typ("in^3", "au::pow<3>(au::Inches{})", L3, model.vpow(inch.mag, 3), 4), U["us_gallons"],
              model.prefixed(P["Milli"], U["liters"]), sc(cm3, model.mag_int(1000), "cm^3*1000"),
              typ("m^2*mm", "au::pow<2>(au::Meters{}) * au::Milli<au::Meters>{}", L3, dict(mm_.mag), 1),
              U["us_pints"]]
    rtm = typ("rt(m)", "au::root<2>(au::Meters{})", Lh, {}, 5)
    rootlen = [rtm, typ("rt(cm)", "au::root<2>(au::Centi<au::Meters>{})", Lh, model.vpow(cm.mag, Fr(1, 2)), 5),
               sc(rtm, model.mag_int(3), "rt(m)*3"), typ("rt(ft)", "au::root<2>(au::Feet{})", Lh, model.vpow(ft.mag, Fr(1, 2)), 5),
               typ("rt(mm)", "au::root<2>(au::Milli<au::Meters>{})", Lh, model.vpow(mm_.mag, Fr(1, 2)), 5),
               typ("rt(m^3)/m", "au::root<2>(au::pow<3>(au::Meters{})) / au::Meters{}", Lh, {}, None)]
    frequency = [U["hertz"], typ("1/s", "au::pow<-1>(au::Seconds{})", Tm1, {}, 4),
                 typ("1/min", "au::pow<-1>(au::Minutes{})", Tm1, model.vinv(U["minutes"].mag), 4), model.prefixed(P["Kilo"], U["hertz"]),
                 typ("1/ms", "au::pow<-1>(au::Milli<au::Seconds>{})", Tm1, model.vinv(ms.mag), 4),
                 sc(U["hertz"], model.mag_ratio(3, 7), "Hz*3/7"), typ("1/h", "au::inverse(au::Hours{})", Tm1, model.vinv(U["hours"].mag), 4)]
    unitless = [U["unos"], U["percent"], typ("m/m", "au::Meters{} / au::Meters{}", {}, {}, 1),
                sc(U["percent"], model.mag_int(100), "%*100"), sc(U["unos"], model.mag_ratio(1, 1000), "U/1000"),
                sc(U["percent"], model.mag_ratio(3, 7), "%*3/7"), typ("%^2", "au::pow<2>(au::Percent{})", {}, model.vpow(U["percent"].mag, 2), 4)]
    pi = model.MAG_PI
    length_pi = [m, ft, sc(m, dict(pi), "m*pi"), sc(m, model.vinv(pi), "m/pi"), sc(m, model.vmul(model.vinv(pi), model.mag_int(2)), "m*2/pi"),
                 sc(m, model.vpow(pi, 2), "m*pi^2"), sc(m, model.vmul(pi, model.mag_int(3)), "m*3pi"), model.prefixed(P["Kilo"], m),
                 sc(m, model.vmul(model.vpow(pi, -2), model.mag_ratio(5, 3)), "m*5/(3pi^2)")]
    big = 2 ** 40
    length_big = [m, inch, sc(inch, model.mag_ratio(big, big - 1), "in*2^40/(2^40-1)"), sc(m, model.mag_ratio(big - 87, big), "m*(2^40-87)/2^40"),
                  sc(inch, model.mag_ratio(big - 1, big // 2), "in*(2^40-1)/2^39"), sc(m, model.mag_ratio(3, 7), "m*3/7"),
                  sc(m, model.mag_ratio(big - 87, 3), "m*(2^40-87)/3"), sc(ft, model.mag_ratio(big, big - 87), "ft*2^40/(2^40-87)")]
    # bare UnitImpl, CommonUnit and named units next to each other (kinds 0, 2, 3, 6)
    kinds = [m, ft, inch, typ("UnitImpl<L>", "au::UnitImpl<au::Length>", model.d(L=1), {}, 2, is_type=True),
             typ("UnitImpl<L,11>", "au::UnitImpl<au::Length, decltype(au::mag<11>())>", model.d(L=1), model.mag_int(11), 2, is_type=True),
             gen_unit("zorks", "gen::Zorks", m.dim, model.mag_int(11)),
             typ("common(ft,in*5)", "au::CommonUnitT<au::Feet, decltype(au::Inches{} * au::mag<5>())>", model.d(L=1), dict(inch.mag), 6, is_type=True),
             typ("common(m,yd)", "au::CommonUnitT<au::Meters, au::Yards>", model.d(L=1), model.mag_gcd([m.mag, U["yards"].mag]), 6, is_type=True)]
    # named units with scale and/or origin; a CommonPointUnit as a list element (its magnitude also divides the unit in
    # which the origin displacement is expressed, centi-kelvins for Celsius (27315 cK), so it is K/100)
    K, C, F = U["kelvins"], U["celsius"], U["fahrenheit"]
    rank_ = model.Unit("rankines", "au::Rankines", K.dim, model.mag_ratio(5, 9), 0, None, named=True)
    offk = model.Unit("offsetK", "gen::OffsetK", K.dim, {}, Fr(5, 4), None, named=True)
    temp2 = [K, C, F, rank_, offk, sc(rank_, model.mag_int(2), "R*2"), sc(F, model.mag_int(2), "degF*2"),
             typ("commonpt(degC,K)", "au::CommonPointUnitT<au::Celsius, au::Kelvins>", K.dim, model.mag_ratio(1, 100), 7, origin=0, is_type=True),
             sc(offk, model.mag_int(2), "offsetK*2"), sc(K, model.mag_int(2), "K*2")]
    out = {"volume": volume, "rootlen": rootlen, "frequency": frequency, "unitless": unitless, "length-pi": length_pi,
           "length-big": length_big, "kinds": kinds, "temperature2": temp2}
    if tier == "quick":
        out = {"volume": volume[:8], "rootlen": rootlen[:5], "frequency": frequency[:6], "unitless": unitless[:6], "length-pi": length_pi[:8],
               "length-big": length_big[:6], "kinds": kinds[:7], "temperature2": temp2[:8]}
    return out


def all_rational(units):
    return all(model.mag_is_rational(model.vdiv(a.mag, units[0].mag)) for a in units)


def check(run):
    tier = run.tier
    quick = tier == "quick"
    bks = dict(buckets(tier))
    bks.update(extra_buckets(tier))
    maxlen = 4
    recs, meta = [], {}
    rid = 0
    n_states = n_trans = 0
    for bname, units in bks.items():
        n_states += len(units)
        for size in range(2, maxlen + 1):
            # size 4: quick = the first six units of every bucket (15 lists each), thorough = the first ten
            pool = units if size < 4 else units[:(6 if quick else 10)]
            for combo in itertools.combinations(range(len(pool)), size):
                us = [pool[i] for i in combo]
                if conflict(us):
                    continue
                n_states += 1
                names = [u.cpp for u in us]
                C = "au::CommonUnitT<%s>" % ", ".join(names)
                perms = list(itertools.permutations(names))
                if size == 4:
                    perms = perms[::3] + [perms[-1]]
                variants = ["au::CommonUnitT<%s>" % ", ".join(p) for p in perms]
                variants.append("au::CommonUnitT<%s>" % ", ".join(names + [names[0]]))       # repetition
                variants.append("au::CommonUnitT<%s>" % ", ".join([names[-1]] + names + names))
                variants.append("decltype(au::common_unit(%s))" % ", ".join(n + "{}" for n in reversed(names)))
                # the same operation spelt with makers / symbols / unit instances in the slots, and through make_common
                slots = ["au::QuantityMaker<%s>{}", "au::SymbolFor<%s>{}", "%s{}", "au::make_constant(%s{})"]
                variants.append("decltype(au::common_unit(%s))" % ", ".join(slots[i % 4] % n for i, n in enumerate(names)))
                variants.append("decltype(au::make_common(%s))::Unit" % ", ".join("au::QuantityMaker<%s>{}" % n for n in reversed(names)))
                variants.append("au::AssociatedUnitT<decltype(au::make_common(%s))>" % ", ".join("au::SymbolFor<%s>{}" % n for n in names))
                nests = []
                for k in range(1, size):
                    left, right = names[:k], names[k:]
                    nests.append("au::CommonUnitT<au::CommonUnitT<%s>, %s>" % (", ".join(left), ", ".join(right)))
                    nests.append("au::CommonUnitT<%s, au::CommonUnitT<%s>>" % (", ".join(left), ", ".join(right)))
                    if len(left) > 1 and len(right) > 1:
                        nests.append("au::CommonUnitT<au::CommonUnitT<%s>, au::CommonUnitT<%s>>" % (", ".join(right), ", ".join(left)))
                if size == 4:
                    # a CommonUnit-typed element at every position among the other units
                    inner = "au::CommonUnitT<%s, %s>" % (names[1], names[3])
                    for pm in itertools.permutations([inner, names[0], names[2]]):
                        nests.append("au::CommonUnitT<%s>" % ", ".join(pm))
                if size == 3:
                    # the real producer of nesting: the n-ary std::common_type folds pairwise
                    for order in (names, names[::-1], [names[1], names[2], names[0]]):
                        nests.append("std::common_type_t<%s>::Unit" % ", ".join("au::Quantity<%s, int>" % n for n in order))
                stm = ['using C = %s;' % C, 'vf_kv("u", "{" + vf::unit_json<C>() + "}");']
                stm.append('{ const bool p[] = {%s}; long bad = -1; for (long i = 0; i < %d; ++i) if (!p[i] && bad < 0) bad = i; vf_i("perm_bad", bad); }'
                           % (", ".join("std::is_same<%s, C>::value" % v for v in variants), len(variants)))
                stm.append('{ const bool p[] = {%s}; long hit = -1; for (long i = 0; i < %d; ++i) if (p[i] && hit < 0) hit = i; vf_i("same_as_input", hit); }'
                           % (", ".join("std::is_same<%s, C>::value" % n for n in names), size))
                stm.append('{ const bool p[] = {%s}; long bad = -1; for (long i = 0; i < %d; ++i) if (!p[i] && bad < 0) bad = i; vf_i("nest_bad", bad); }'
                           % (", ".join("(au::are_units_quantity_equivalent(%s{}, C{}) && au::unit_ratio(%s{}, C{}) == au::ONE)" % (v, v) for v in nests), len(nests)))
                # nesting must also be symmetric as a *type* under swapping the two nested arguments
                stm.append('vf_b("nest_sym", std::is_same<au::CommonUnitT<au::CommonUnitT<%s>, %s>, au::CommonUnitT<%s, au::CommonUnitT<%s>>>::value);'
                           % (", ".join(names[:-1]) if size > 2 else names[0], names[-1], names[-1], ", ".join(names[:-1]) if size > 2 else names[0]))
                if size == 2:
                    qa, qb = "au::Quantity<%s, int32_t>" % names[0], "au::Quantity<%s, int64_t>" % names[1]
                    qc, qd = "au::Quantity<%s, float>" % names[1], "au::Quantity<%s, int16_t>" % names[0]
                    stm.append('vf_b("ct_exact", std::is_same<std::common_type_t<%s, %s>, au::Quantity<C, int64_t>>::value '
                               '&& std::is_same<std::common_type_t<%s, %s>, au::Quantity<C, float>>::value);' % (qa, qb, qc, qd))
                    stm.append('vf_b("ct_sym", std::is_same<std::common_type_t<%s, %s>, std::common_type_t<%s, %s>>::value '
                               '&& std::is_same<std::common_type_t<%s, %s>, std::common_type_t<%s, %s>>::value);' % (qa, qb, qb, qa, qc, qd, qd, qc))
                    stm.append('{ using T1 = std::common_type_t<%s, %s>; using T2 = std::common_type_t<%s, %s>; '
                               'vf_b("ct_equiv", au::are_units_quantity_equivalent(T1::Unit{}, C{}) && au::are_units_quantity_equivalent(T2::Unit{}, C{}) '
                               '&& std::is_same<T1::Rep, int64_t>::value && std::is_same<T2::Rep, float>::value); }' % (qa, qb, qc, qd))
                rat = all_rational(us)
                if rat:
                    ratios = ", ".join('vf::MagJson<au::UnitRatioT<%s, C>>::get()' % n for n in names)
                    stm.append('{ const std::string r[] = {%s}; std::string s = "["; for (long i = 0; i < %d; ++i) { if (i) s += ","; s += r[i]; } vf_kv("ratios", s + "]"); }' % (ratios, size))
                recs.append((rid, ["{"] + stm + ["}"]))
                meta[rid] = {"bucket": bname, "units": us, "variants": variants, "nests": nests, "rational": rat}
                n_trans += len(variants) + len(nests) + 1
                rid += 1
    cfgs = core.CORNERS if quick else core.CFG6
    n_rational = n_irr = 0
    cnt = {"irrational_nesting_not_equivalent_not_judged": 0, "common_type_not_literally_Quantity_of_CommonUnitT_not_judged": 0,
           "gcd_unit_is_a_nested_CommonUnit_input_result_equivalent_not_identical": 0}
    done_cfgs = []
    per_cfg = None
    for cfg in cfgs:
        if per_cfg is not None and run.time_left() < 1.3 * per_cfg:
            break
        t0 = run.elapsed()
        res, failed = psx.run_dump(cfg, recs, os.path.join(run.wd, cfg.name), "c07", PREAMBLE7, flags=cflags(cfg),
                                   chunk=max(20, min(150, len(recs) // (core.NCPU * 3) + 1)))
        done_cfgs.append(cfg)
        per_cfg = run.elapsed() - t0
        for r, diag in failed.items():
            m = meta[r]
            desc = ",".join(u.name for u in m["units"])
            key = "C07:does-not-compile:%s" % desc
            run.violation(key, "%s: CommonUnitT<%s> (same dimension) does not compile: %s" % (cfg, desc, diag),
                          run.write_replay(key, {"kind": "program", "config": str(cfg), "units": [u.cpp for u in m["units"]],
                                                 "stmts": recs[r][1], "diag": diag}))
        for r, o in res.items():
            m = meta[r]
            us = m["units"]
            desc = ",".join(u.name for u in us)

            def viol(kind, what, extra=None):
                key = "C07:%s:%s" % (kind, desc)
                run.violation(key, "%s: %s" % (cfg, what),
                              run.write_replay(key, {"kind": "program", "config": str(cfg), "units": [u.cpp for u in us],
                                                     "stmts": recs[r][1], "observed": o, "extra": extra}))
            got_d = model.dim_key(model.dim_from_readout(o["u"]["dim"]))
            if got_d != model.dim_key(us[0].dim):
                viol("dim", "common unit of %s has dimension %s" % (desc, got_d))
            if o["perm_bad"] >= 0:
                viol("permutation", "CommonUnitT of (%s) differs for ordering/repetition/spelling %s" % (desc, m["variants"][o["perm_bad"]]))
            if o["nest_bad"] >= 0:
                if m["rational"]:
                    viol("nesting", "nested %s is not quantity-equivalent to the flat common unit of (%s)" % (m["nests"][o["nest_bad"]], desc))
                else:
                    cnt["irrational_nesting_not_equivalent_not_judged"] += 1    # only a symmetric result is promised there
            if not o["nest_sym"]:
                viol("nesting-symmetry", "nested common unit of (%s) depends on argument order" % desc)
            if "ct_sym" in o:
                if not o["ct_sym"]:
                    viol("common-type-symmetry", "std::common_type_t of quantities of (%s) depends on the argument order" % desc)
                if not o["ct_equiv"]:
                    viol("common-type", "std::common_type_t of quantities of (%s) is not a quantity of a unit equivalent to the common unit in the common rep" % desc)
                if not o["ct_exact"]:
                    cnt["common_type_not_literally_Quantity_of_CommonUnitT_not_judged"] += 1
            if m["rational"]:
                n_rational += 1
                g = model.mag_gcd([u.mag for u in us])
                got = model.mag_from_readout(o["u"]["mag"])
                if model.mag_key(got) != model.mag_key(g):
                    viol("gcd", "common unit of (%s) has magnitude %s; the gcd unit has %s" % (desc, model.mag_key(got), model.mag_key(g)))
                ints = []
                for u, rr in zip(us, o["ratios"]):
                    rm = model.mag_from_readout(rr)
                    if not model.mag_is_integer(rm) and rm:
                        viol("ratio-not-integer", "%s / common(%s) = %s is not a positive integer" % (u.name, desc, model.mag_key(rm)))
                        ints = None
                        break
                    ints.append(int(model.mag_fraction(rm)) if rm else 1)
                    if model.mag_key(rm) != model.mag_key(model.vdiv(u.mag, g)):
                        viol("ratio-wrong", "%s / common(%s) read out as %s, exact %s" % (u.name, desc, model.mag_key(rm), model.mag_key(model.vdiv(u.mag, g))))
                if ints:
                    import math
                    gg = 0
                    for x in ints:
                        gg = math.gcd(gg, x)
                    if gg != 1:
                        viol("not-largest", "ratios %s of (%s) share the factor %d: a larger common unit exists" % (ints, desc, gg))
                has = [i for i, u in enumerate(us) if model.mag_key(u.mag) == model.mag_key(g)]
                # an input that is itself CommonUnit-typed is flattened: for it the nesting clause (quantity-equivalence, checked
                # through unit_ratio == 1 above) governs, not "is one of the inputs"
                demand = [i for i in has if rank(us[i]) != 6]
                if has and not demand and o["same_as_input"] < 0:
                    cnt["gcd_unit_is_a_nested_CommonUnit_input_result_equivalent_not_identical"] += 1
                if demand and o["same_as_input"] < 0:
                    viol("not-an-input", "input %s already is the gcd unit of (%s) but the common unit is a different type" % (us[demand[0]].name, desc))
                if o["same_as_input"] >= 0 and o["same_as_input"] not in has:
                    viol("wrong-input", "common unit of (%s) is input %s which is not the gcd unit" % (desc, us[o["same_as_input"]].name))
            else:
                n_irr += 1
    complete = len(done_cfgs) == len(cfgs)
    run.cov.update({
        "states": n_states, "transitions": n_trans, "traces_validated_against_impl": n_trans * len(done_cfgs),
        "lists": len(recs), "lists_rational_checked": n_rational, "lists_irrational_checked": n_irr,
        "max_list_length": maxlen, "buckets": {k: [u.name for u in v] for k, v in bks.items()},
        "configs": [str(c) for c in done_cfgs], "exhaustive": complete,
        "exhaustive_note": ("all multisets of size 2..4 over the stated per-dimension enumerated alphabets (size 4: first %d units of each bucket, every third permutation); "
                            "all permutations for sizes 2-3; per list one repetition pattern, maker/symbol/constant slot spellings, make_common, every nesting split, "
                            "a CommonUnit element at every position (size 4) and the 3-ary std::common_type fold (size 3)" % (6 if quick else 10))
                           + ("" if complete else "; stopped before configurations %s (time budget)" % [str(c) for c in cfgs[len(done_cfgs):]]),
        "samples": [{"list": [u.name for u in meta[r]["units"]], "forms": meta[r]["variants"][:2]} for r in list(meta)[:: max(1, len(meta) // 5)]][:6],
    })
    run.cov.update(cnt)
    run.assumptions += ["gcd oracle = base-wise minimum of exact prime-exponent vectors; demanded only when all pairwise ratios are rational",
                        "lists with two distinct unit types of the same kind (named, Pow, scaled with equal factor, ...) and identical dim/mag/origin are excluded (documented ordering limitation)",
                        "nesting (incl. the n-ary std::common_type fold) must be quantity-equivalent to the flat common unit for rational lists; for irrational lists a mismatch is counted, not judged",
                        "std::common_type_t of two quantities must be symmetric and a quantity of a unit equivalent to the common unit in the common rep; literal identity with Quantity<CommonUnitT, rep> is counted only"]


def replay(path):
    import json
    r = json.load(open(path))
    cfg = [c for c in core.CFG6 if str(c) == r.get("config")]
    cfg = cfg[0] if cfg else core.GXX14
    wd = os.path.join(core.BUILD, "C07", "replay")
    os.makedirs(wd, exist_ok=True)
    res, failed = psx.run_dump(cfg, [(0, r["stmts"])], wd, "rp", PREAMBLE7, flags=cflags(cfg))
    print("observed now:", res.get(0), failed)

    def strip(o):
        return {k: v for k, v in (o or {}).items() if k != "id"}
    if failed or (r.get("observed") and strip(res.get(0)) == strip(r.get("observed"))):
        print("VIOLATION property=C07 replay=%s" % path)
        return 1
    return 0
