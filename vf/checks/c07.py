"""C07 — common unit is the gcd unit, symmetric in its inputs.

Explicit-state exploration: states = multisets of same-dimension units (up to a size bound),
transitions = every way of forming CommonUnitT over a state (each permutation, a repetition pattern,
every nesting split, std::common_type of the Quantity types).  Oracle: base-wise minimum of exact
prime-exponent vectors (vf/model.py), evaluated only when all pairwise ratios are rational.
"""
import itertools
import os
from fractions import Fraction as Fr

from .. import core, model, psx
from ..model import LIB_BY_STEM as U
from ..sweep34 import cflags
from .c06 import mag_expr

LEVEL = "model_checking"

PREAMBLE = r'''
namespace gen {
template <typename T> struct WugLabel { static constexpr const char label[] = "wug"; };
template <typename T> constexpr const char WugLabel<T>::label[];
// named + labelled, magnitude 35/3 m (nothing else has it)
struct Wugs : decltype(au::Meters{} * au::mag<35>() / au::mag<3>()), WugLabel<void> { using WugLabel<void>::label; };
// named + unlabelled, magnitude 11 m
struct Zorks : au::UnitImpl<au::Length, decltype(au::mag<11>())> {};
// named + unlabelled, 77/2 s
struct Blips : au::UnitImpl<au::Time, decltype(au::mag<77>() / au::mag<2>())> {};
}
'''


def gen_unit(name, cpp, dim, mag):
    return model.Unit(name, cpp, dim, mag, 0, None, named=True)


def anon(base, m, name):
    """anonymous scaled unit base * (magnitude m)"""
    return model.Unit(name, "decltype(%s{} * (%s))" % (base.cpp, mag_expr(m)), base.dim,
                      model.vmul(base.mag, m), base.origin, None, named=False)


def buckets(tier):
    P = {p[0]: p for p in model.ALL_PREFIXES}
    m, s = U["meters"], U["seconds"]
    two40 = model.vdiv(model.mag_int(2 ** 40), model.mag_int(2 ** 40 - 1))
    length = [m, U["feet"], U["inches"], U["yards"], U["miles"], U["nautical_miles"],
              model.prefixed(P["Kilo"], m), model.prefixed(P["Centi"], m),
              anon(m, model.mag_ratio(3, 7), "m*3/7"), anon(U["inches"], two40, "in*2^40/(2^40-1)"),
              gen_unit("wugs", "gen::Wugs", m.dim, model.mag_ratio(35, 3)),
              gen_unit("zorks", "gen::Zorks", m.dim, model.mag_int(11)),
              anon(m, dict(model.MAG_PI), "m*pi"), anon(m, {2: Fr(1, 2)}, "m*sqrt2"),
              anon(m, {2: Fr(1, 2), 3: Fr(1)}, "m*3sqrt2"), U["fathoms"], U["furlongs"]]
    time = [s, U["minutes"], U["hours"], U["days"], model.prefixed(P["Milli"], s),
            model.prefixed(P["Nano"], s), anon(s, model.mag_ratio(3, 7), "s*3/7"),
            anon(s, model.mag_ratio(1001, 30000), "s*1001/30000"),
            gen_unit("blips", "gen::Blips", s.dim, model.mag_ratio(77, 2)),
            anon(U["minutes"], model.mag_ratio(1, 7), "min/7"), model.prefixed(P["Kilo"], s),
            anon(s, model.vmul(model.MAG_PI, model.mag_int(2)), "s*2pi")]
    angle = [U["radians"], U["degrees"], U["revolutions"], U["arcminutes"], U["arcseconds"],
             model.prefixed(P["Milli"], U["radians"]), anon(U["degrees"], model.mag_ratio(1, 7), "deg/7"),
             anon(U["radians"], model.mag_ratio(2, 3), "rad*2/3")]
    data = [U["bits"], U["bytes"], model.prefixed(P["Kibi"], U["bytes"]), model.prefixed(P["Mebi"], U["bits"]),
            model.prefixed(P["Kilo"], U["bits"]), anon(U["bytes"], model.mag_ratio(3, 5), "B*3/5"),
            model.prefixed(P["Gibi"], U["bytes"])]
    # units that differ ONLY in origin (same dimension, magnitude and, for the anonymous ones, scale factor):
    # quantity-wise they are equivalent, so every tie-breaker of the canonical ordering is exercised
    K, C, F = U["kelvins"], U["celsius"], U["fahrenheit"]
    temp = [K, C, F, anon(C, model.mag_int(2), "degC*2"), anon(K, model.mag_int(2), "K*2"), anon(C, model.mag_int(3), "degC*3"),
            model.prefixed(P["Milli"], K), model.prefixed(P["Milli"], C), anon(K, model.mag_ratio(5, 7), "K*5/7"),
            anon(C, model.mag_ratio(5, 7), "degC*5/7"), anon(F, model.mag_int(2), "degF*2")]
    # distinct ANONYMOUS compound units with identical dimension and magnitude (only the last tie-breaker of the
    # canonical ordering, the product structure itself, separates them), next to named equivalents
    def prod(name, expr, dim, mag):
        return model.Unit(name, "decltype(%s)" % expr, dim, mag, 0, None, named=False)
    E = model.d(M=1, L=2, T=-2)
    kg = model.prefixed(P["Kilo"], U["grams"])
    energy = [U["joules"], prod("N*m", "au::Newtons{} * au::Meters{}", E, model.mag_int(1000)),
              prod("W*s", "au::Watts{} * au::Seconds{}", E, model.mag_int(1000)),
              prod("kg*m^2/s^2", "au::Kilo<au::Grams>{} * au::pow<2>(au::Meters{}) / au::pow<2>(au::Seconds{})", E, model.mag_int(1000)),
              prod("g*km*m/s^2", "au::Grams{} * au::Kilo<au::Meters>{} * au::Meters{} / au::pow<2>(au::Seconds{})", E, model.mag_int(1000)),
              prod("V*C", "au::Volts{} * au::Coulombs{}", E, model.mag_int(1000)),
              prod("lbf*ft", "au::PoundsForce{} * au::Feet{}", E, model.vmul(U["pounds_force"].mag, U["feet"].mag)),
              model.prefixed(P["Kilo"], U["joules"])]
    speed = [prod("m/s", "au::Meters{} / au::Seconds{}", model.d(L=1, T=-1), {}), prod("m*Hz", "au::Meters{} * au::Hertz{}", model.d(L=1, T=-1), {}),
             U["knots"], prod("km/h", "au::Kilo<au::Meters>{} / au::Hours{}", model.d(L=1, T=-1), model.mag_ratio(1000, 3600)),
             prod("mi/h", "au::Miles{} / au::Hours{}", model.d(L=1, T=-1), model.vdiv(U["miles"].mag, model.mag_int(3600))),
             prod("ft*Hz", "au::Feet{} * au::Hertz{}", model.d(L=1, T=-1), U["feet"].mag)]
    if tier == "quick":
        return {"length": length[:13], "time": time[:9], "angle": angle[:6], "temperature": temp[:8], "energy": energy[:6], "speed": speed[:5]}
    return {"length": length, "time": time, "angle": angle, "data": data, "temperature": temp, "energy": energy, "speed": speed}


def all_rational(units):
    return all(model.mag_is_rational(model.vdiv(a.mag, units[0].mag)) for a in units)


def check(run):
    tier = run.tier
    bks = buckets(tier)
    maxlen = 3 if tier == "quick" else 4
    recs, meta = [], {}
    rid = 0
    n_states = n_trans = 0
    for bname, units in bks.items():
        n_states += len(units)
        for size in range(2, maxlen + 1):
            pool = units if size < 4 else units[:10]
            for combo in itertools.combinations(range(len(pool)), size):
                us = [pool[i] for i in combo]
                if model.ordering_conflict(us):
                    continue
                n_states += 1
                names = [u.cpp for u in us]
                C = "au::CommonUnitT<%s>" % ", ".join(names)
                perms = list(itertools.permutations(names))
                if size == 4:
                    perms = perms[::3] + [perms[-1]]
                variants = ["au::CommonUnitT<%s>" % ", ".join(p) for p in perms]
                variants.append("au::CommonUnitT<%s>" % ", ".join(names + [names[0]]))       # repetition
                variants.append("au::CommonUnitT<%s>" % ", ".join([names[-1]] + names + names))
                variants.append("decltype(au::common_unit(%s))" % ", ".join(n + "{}" for n in reversed(names)))
                nests = []
                for k in range(1, size):
                    left, right = names[:k], names[k:]
                    nests.append("au::CommonUnitT<au::CommonUnitT<%s>, %s>" % (", ".join(left), ", ".join(right)))
                    nests.append("au::CommonUnitT<%s, au::CommonUnitT<%s>>" % (", ".join(left), ", ".join(right)))
                    if len(left) > 1 and len(right) > 1:
                        nests.append("au::CommonUnitT<au::CommonUnitT<%s>, au::CommonUnitT<%s>>" % (", ".join(right), ", ".join(left)))
                stm = ['using C = %s;' % C, 'vf_kv("u", "{" + vf::unit_json<C>() + "}");']
                stm.append('{ const bool p[] = {%s}; long bad = -1; for (long i = 0; i < %d; ++i) if (!p[i] && bad < 0) bad = i; vf_i("perm_bad", bad); }'
                           % (", ".join("std::is_same<%s, C>::value" % v for v in variants), len(variants)))
                stm.append('{ const bool p[] = {%s}; long hit = -1; for (long i = 0; i < %d; ++i) if (p[i] && hit < 0) hit = i; vf_i("same_as_input", hit); }'
                           % (", ".join("std::is_same<%s, C>::value" % n for n in names), size))
                stm.append('{ const bool p[] = {%s}; long bad = -1; for (long i = 0; i < %d; ++i) if (!p[i] && bad < 0) bad = i; vf_i("nest_bad", bad); }'
                           % (", ".join("(au::are_units_quantity_equivalent(%s{}, C{}) && au::unit_ratio(%s{}, C{}) == au::ONE)" % (v, v) for v in nests), len(nests)))
                # nesting must also be symmetric as a *type* under swapping the two nested arguments
                stm.append('vf_b("nest_sym", std::is_same<au::CommonUnitT<au::CommonUnitT<%s>, %s>, au::CommonUnitT<%s, au::CommonUnitT<%s>>>::value);'
                           % (", ".join(names[:-1]) if size > 2 else names[0], names[-1], names[-1], ", ".join(names[:-1]) if size > 2 else names[0]))
                if size == 2:
                    stm.append('vf_b("common_type", std::is_same<std::common_type_t<au::Quantity<%s, int32_t>, au::Quantity<%s, int64_t>>, au::Quantity<C, int64_t>>::value '
                               '&& std::is_same<std::common_type_t<au::Quantity<%s, float>, au::Quantity<%s, int16_t>>, au::Quantity<C, float>>::value);'
                               % (names[0], names[1], names[1], names[0]))
                rat = all_rational(us)
                if rat:
                    ratios = ", ".join('vf::MagJson<au::UnitRatioT<%s, C>>::get()' % n for n in names)
                    stm.append('{ const std::string r[] = {%s}; std::string s = "["; for (long i = 0; i < %d; ++i) { if (i) s += ","; s += r[i]; } vf_kv("ratios", s + "]"); }' % (ratios, size))
                recs.append((rid, ["{"] + stm + ["}"]))
                meta[rid] = {"bucket": bname, "units": us, "variants": variants, "nests": nests, "rational": rat}
                n_trans += len(variants) + len(nests) + 1
                rid += 1
    cfgs = core.CORNERS if tier == "quick" else core.CFG6
    n_rational = n_irr = 0
    for cfg in cfgs:
        res, failed = psx.run_dump(cfg, recs, os.path.join(run.wd, cfg.name), "c07", PREAMBLE, flags=cflags(cfg),
                                   chunk=max(20, len(recs) // (core.NCPU * 3) + 1))
        for r, diag in failed.items():
            m = meta[r]
            desc = ",".join(u.name for u in m["units"])
            run.violation("C07:does-not-compile:%s" % desc, "%s: CommonUnitT<%s> (same dimension) does not compile: %s" % (cfg, desc, diag))
        for r, o in res.items():
            m = meta[r]
            us = m["units"]
            desc = ",".join(u.name for u in us)

            def viol(kind, what, extra=None):
                key = "C07:%s:%s" % (kind, desc)
                run.violation(key, "%s: %s" % (cfg, what),
                              run.write_replay(key, {"kind": "program", "config": str(cfg), "units": [u.cpp for u in us],
                                                     "stmts": recs[r][1], "observed": o, "extra": extra}))
            got_d = model.dim_key(model.dim_from_readout(o["u"]["dim"]))
            if got_d != model.dim_key(us[0].dim):
                viol("dim", "common unit of %s has dimension %s" % (desc, got_d))
            if o["perm_bad"] >= 0:
                viol("permutation", "CommonUnitT of (%s) differs for ordering/repetition %s" % (desc, m["variants"][o["perm_bad"]]))
            if o["nest_bad"] >= 0:
                viol("nesting", "nested %s is not quantity-equivalent to the flat common unit of (%s)" % (m["nests"][o["nest_bad"]], desc))
            if not o["nest_sym"]:
                viol("nesting-symmetry", "nested common unit of (%s) depends on argument order" % desc)
            if "common_type" in o and not o["common_type"]:
                viol("common-type", "std::common_type_t of quantities of (%s) is not Quantity<CommonUnitT, common rep>" % desc)
            if m["rational"]:
                n_rational += 1
                g = model.mag_gcd([u.mag for u in us])
                got = model.mag_from_readout(o["u"]["mag"])
                if model.mag_key(got) != model.mag_key(g):
                    viol("gcd", "common unit of (%s) has magnitude %s; the gcd unit has %s" % (desc, model.mag_key(got), model.mag_key(g)))
                ints = []
                for u, rr in zip(us, o["ratios"]):
                    rm = model.mag_from_readout(rr)
                    if not model.mag_is_integer(rm) and rm:
                        viol("ratio-not-integer", "%s / common(%s) = %s is not a positive integer" % (u.name, desc, model.mag_key(rm)))
                        ints = None
                        break
                    ints.append(int(model.mag_fraction(rm)) if rm else 1)
                    if model.mag_key(rm) != model.mag_key(model.vdiv(u.mag, g)):
                        viol("ratio-wrong", "%s / common(%s) read out as %s, exact %s" % (u.name, desc, model.mag_key(rm), model.mag_key(model.vdiv(u.mag, g))))
                if ints:
                    import math
                    gg = 0
                    for x in ints:
                        gg = math.gcd(gg, x)
                    if gg != 1:
                        viol("not-largest", "ratios %s of (%s) share the factor %d: a larger common unit exists" % (ints, desc, gg))
                has = [i for i, u in enumerate(us) if model.mag_key(u.mag) == model.mag_key(g)]
                if has and o["same_as_input"] < 0:
                    viol("not-an-input", "input %s already is the gcd unit of (%s) but the common unit is a different type" % (us[has[0]].name, desc))
                if o["same_as_input"] >= 0 and o["same_as_input"] not in has:
                    viol("wrong-input", "common unit of (%s) is input %s which is not the gcd unit" % (desc, us[o["same_as_input"]].name))
            else:
                n_irr += 1
    run.cov.update({
        "states": n_states, "transitions": n_trans, "traces_validated_against_impl": n_trans * len(cfgs),
        "lists": len(recs), "lists_rational_checked": n_rational, "lists_irrational_checked": n_irr,
        "max_list_length": maxlen, "buckets": {k: [u.name for u in v] for k, v in bks.items()},
        "configs": [str(c) for c in cfgs], "exhaustive": True,
        "exhaustive_note": "all multisets of size 2..%d over the stated per-dimension alphabets (size 4: first 10 units, every third permutation); all permutations for sizes 2-3" % maxlen,
        "samples": [{"list": [u.name for u in meta[r]["units"]], "forms": meta[r]["variants"][:2]} for r in list(meta)[:: max(1, len(meta) // 5)]][:6],
    })
    run.assumptions += ["gcd oracle = base-wise minimum of exact prime-exponent vectors; demanded only when all pairwise ratios are rational",
                        "lists with two distinct named units of identical dim/mag/origin are excluded (documented ordering limitation)"]


def replay(path):
    import json
    r = json.load(open(path))
    cfg = [c for c in core.CFG6 if str(c) == r.get("config")]
    cfg = cfg[0] if cfg else core.GXX14
    wd = os.path.join(core.BUILD, "C07", "replay")
    res, failed = psx.run_dump(cfg, [(0, r["stmts"])], wd, "rp", PREAMBLE, flags=cflags(cfg))
    print("observed now:", res.get(0), failed)
    if failed or res.get(0) == r.get("observed"):
        print("VIOLATION property=C07 replay=%s" % path)
        return 1
    return 0
