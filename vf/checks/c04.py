"""C04 — same-rep runtime conversion checkers are exact (bounded exhaustive value sweeps)."""
from .. import core, sweep34

LEVEL = "exploration"


def check(run):
    cov = sweep34.explore(run, sweep34.C04_KINDS)
    fcov = sweep34.explore_float(run) if hasattr(sweep34, "explore_float") else {}
    cov.update(fcov)
    cov["evaluations"] += fcov.get("float_evaluations", 0)
    cov["distinct_nontrivial"] += fcov.get("float_instances_with_both_outcomes", 0)
    cov["rule"] = ("instances = (integral rep T) x (factor N/D from the structured grid FG(T)) for which "
                   "coerce_in compiles (observed by compiling each alone); values = all values of 8/16-bit "
                   "reps, breakpoint-complete windows for 32/64-bit (thorough: all 2^32 values for a "
                   "branch-covering factor subset). Each value: will_conversion_truncate/overflow/"
                   "is_conversion_lossy compared with exact 128-bit rational arithmetic. An instance is "
                   "non-trivial when both lossy and non-lossy values were observed on it.")
    cov["exhaustive"] = True
    cov["exhaustive_note"] = ("exhaustive for every 8/16-bit instance (and 2^32 instances in thorough); "
                              "32/64-bit instances are covered on the stated windows only")
    run.cov.update(cov)
    run.assumptions += ["g++ 12 / clang 14 on x86-64 LP64 execute the compiled harness faithfully",
                        "harness/sweep.hh exact_scale (unsigned __int128) is the reference semantics",
                        "values strictly between Tmax and Tmax+1 (or Tmin-1 and Tmin) are a don't-care band "
                        "for will_conversion_overflow; is_conversion_lossy must still be true there"]


def replay(path):
    return sweep34.replay(path, "C04")
