"""C06 — implicit-conversion safety surface is total and as documented (program-space grid).

Cells   = (U1,R1,U2,R2): traits (is_convertible/is_constructible/is_assignable, cv/ref sources, overload
          pick against an ellipsis and against a second Quantity overload, std::common_type) in dump
          TUs that must compile (totality); every permitted cell also *performs* the conversion
          (integral targets: value sweep against x*k in __int128; floating targets: one conversion).
Probes  = unit-only .as/.in (unit, maker, symbol, constant slots) and every mixed-unit operator /
          comparison-based function, accept/reject against the documented predicate.
"""
import os
from fractions import Fraction as Fr

from .. import core, model, psx
from ..core import BITS, F3, I8, R11, tmax, tmin
from ..sweep34 import cflags

LEVEL = "exploration"

PREAMBLE = r'''
namespace c06 {
template <typename To> char pick(To);
template <typename To> long pick(...);
template <typename From, typename To>
struct Picks { static constexpr bool value = sizeof(pick<To>(std::declval<From>())) == 1; };
template <typename A, typename B, typename = void> struct HasCommon : std::false_type {};
template <typename A, typename B>
struct HasCommon<A, B, vf::void_t<typename std::common_type<A, B>::type>> : std::true_type {};
// point units with explicit origins (rational multiples of a scaled base unit)
struct PtA : decltype(au::Kelvins{} * au::mag<3>() / au::mag<7>()) {
    static constexpr auto origin() { return (au::kelvins / au::mag<4>())(5); }   // 5/4 K
};
struct PtB : au::Kelvins {
    static constexpr auto origin() { return (au::kelvins / au::mag<6>())(-7); }  // -7/6 K
};
// two competing Quantity overloads: 1 = first, 2 = second, 0 = the call is ill-formed (none viable / ambiguous)
template <typename A, typename B> char (&pick2(A))[1];
template <typename A, typename B> char (&pick2(B))[2];
template <typename From, typename A, typename B, typename = void> struct Pick2 { static constexpr int value = 0; };
template <typename From, typename A, typename B>
struct Pick2<From, A, B, vf::void_t<decltype(pick2<A, B>(std::declval<From>()))>> {
    static constexpr int value = sizeof(pick2<A, B>(std::declval<From>()));
};
// named generated unit: 20 ft (between the int16_t threshold 15 and the uint16_t threshold 30)
struct Score : decltype(au::Feet{} * au::mag<20>()) {};
typedef __int128 i128;
inline std::string i128s(i128 v) {
    if (v == 0) return "0";
    bool neg = v < 0; std::string s;
    unsigned __int128 u = neg ? -static_cast<unsigned __int128>(v) : static_cast<unsigned __int128>(v);
    while (u) { s.insert(s.begin(), static_cast<char>('0' + static_cast<int>(u % 10))); u /= 10; }
    return neg ? "-" + s : s;
}
// value oracle for a permitted integral conversion Quantity<U1,R1> -> Q2 = Quantity<U2,R2>: exactly x*kk (in __int128)
template <typename Q2, typename U1, typename R1>
struct Val {
    static constexpr bool one(R1 x, i128 kk) {
        Q2 q2 = au::make_quantity<U1>(x);
        return static_cast<i128>(q2.in(typename Q2::Unit{})) == static_cast<i128>(x) * kk;
    }
    // every x in [-2147,2147], the neighbourhoods of both ends of [lo,hi] (= all inputs that do not overflow),
    // of their halves/thirds, and the lattice +-2^j + {-1,0,1}
    static void sweep(i128 lo, i128 hi, i128 kk, long long &n, long long &bad, i128 &first) {
        auto t = [&](i128 x) {
            if (x < lo || x > hi) return;
            ++n;
            if (!one(static_cast<R1>(x), kk)) { if (!bad) first = x; ++bad; }
        };
        for (i128 x = (lo > -2147 ? lo : i128(-2147)); x <= (hi < 2147 ? hi : i128(2147)); ++x) t(x);
        for (int d = -2; d <= 2; ++d) { t(lo + d); t(hi + d); t(lo / 2 + d); t(hi / 2 + d); t(lo / 3 + d); t(hi / 3 + d); }
        for (int j = 11; j <= 64; ++j) for (int d = -1; d <= 1; ++d) { t((i128(1) << j) + d); t(-(i128(1) << j) + d); }
    }
};
}
'''

# long long / unsigned long long are distinct types from int64_t / uint64_t on LP64 (same width)
ALIAS = {"long long": "int64_t", "unsigned long long": "uint64_t"}
XL = list(ALIAS)


def canon(r):
    return ALIAS.get(r, r)


def mag_expr(m):
    parts = []
    for b, e in sorted(m.items(), key=lambda kv: (kv[0] == "pi", kv[0] if kv[0] != "pi" else 0)):
        base = "au::Magnitude<au::Pi>{}" if b == "pi" else "au::mag<%du>()" % b
        if e.denominator == 1:
            parts.append(base if e == 1 else "au::pow<%d>(%s)" % (e.numerator, base))
        else:
            inner = base if e.numerator == 1 else "au::pow<%d>(%s)" % (e.numerator, base)
            parts.append("au::root<%d>(%s)" % (e.denominator, inner))
    return " * ".join(parts) if parts else "au::ONE"


def src_unit(m):
    if not m:
        return "au::Meters"
    return "decltype(au::Meters{} * (%s))" % mag_expr(m)


def policy(r1, r2, k):
    """The documented predicate. k: model magnitude of U1/U2."""
    r1, r2 = canon(r1), canon(r2)
    if r2 in F3:
        return True
    if r1 in F3:
        return False
    if not k:
        return True
    if model.mag_is_integer(k):
        kk = int(model.mag_fraction(k))
        return 2147 * kk <= tmax(r2)
    return False


def ratio_grid(tier):
    ints = {2, 10, 1000, 10 ** 6, 10 ** 9, 10 ** 12, 10 ** 18, 10 ** 30, 3 * 2 ** 64}
    for t in I8:
        th = tmax(t) // 2147
        for dlt in (-1, 0, 1):
            if th + dlt >= 2:
                ints.add(th + dlt)
        ints.add(tmax(t) + 1)
    if tier == "quick":
        keep = {2, 1000, 10 ** 6, 10 ** 9, 10 ** 12, 10 ** 30, 3 * 2 ** 64}
        for t in ("int16_t", "uint16_t", "int32_t", "uint32_t", "int64_t", "uint64_t"):
            th = tmax(t) // 2147
            keep |= {th, th + 1}
        keep |= {tmax("int32_t") + 1, tmax("uint64_t") + 1, tmax("uint8_t") + 1}
        ints &= keep
    out = [("1", {})]
    for k in sorted(ints):
        out.append((str(k), model.mag_int(k)))
    recips = sorted(ints) if tier == "thorough" else [2, 1000, 10 ** 9, tmax("int32_t") // 2147 + 1, 10 ** 30,
                                                      tmax("int64_t") // 2147 + 1, tmax("uint64_t") // 2147 + 1]
    for k in recips:
        out.append(("1/%d" % k, model.mag_ratio(1, k)))
    out += [("3/2", model.mag_ratio(3, 2)), ("2/3", model.mag_ratio(2, 3)), ("pi", dict(model.MAG_PI)),
            ("1/pi", model.vinv(model.MAG_PI)), ("sqrt2", {2: Fr(1, 2)}),
            ("3000/7", model.mag_ratio(3000, 7))]
    return out


def extreme_grid(tier):
    """Factors outside the range of float / double / long double (and their reciprocals)."""
    ten = model.mag_int(10)
    out = [("10^40", model.vpow(ten, 40)), ("1/10^46", model.vpow(ten, -46)), ("10^310", model.vpow(ten, 310)),
           ("10^5000", model.vpow(ten, 5000)), ("1/10^5000", model.vpow(ten, -5000))]
    if tier == "thorough":
        out += [("1/10^330", model.vpow(ten, -330)), ("2^16384", {2: Fr(16384)}), ("3*10^38", model.vmul(model.mag_int(3), model.vpow(ten, 38))),
                ("4*10^38", model.vmul(model.mag_int(4), model.vpow(ten, 38)))]
    return out


# ---- floating-point range model (IEEE binary32 / binary64 / x87 extended), independent of Au
FMAX = {"float": Fr(2 ** 128 - 2 ** 104), "double": Fr(2 ** 1024 - 2 ** 971), "long double": Fr(2 ** 16384 - 2 ** 16320)}
FDEN = {"float": Fr(1, 2 ** 149), "double": Fr(1, 2 ** 1074), "long double": Fr(1, 2 ** 16445)}
FMIN = {"float": Fr(1, 2 ** 126), "double": Fr(1, 2 ** 1022), "long double": Fr(1, 2 ** 16382)}


def float_status(c, k):
    """Can the factor k be applied in the floating type c?  'in' (representable: the conversion must compile),
    'outside' (integer or 1/integer beyond max(c), or a ratio beyond max / below the smallest denormal),
    'band' (representable only as a denormal, or a part exceeds long double: not judged)."""
    if isinstance(k, Fr):
        fr = k
    elif not k or not model.mag_is_rational(k):
        return "in"
    else:
        fr = model.mag_fraction(k)
    if fr.denominator == 1:
        return "outside" if fr > FMAX[c] else "in"
    if fr.numerator == 1:
        return "outside" if fr.denominator > FMAX[c] else "in"
    if fr > FMAX[c] or fr < FDEN[c]:
        return "outside"
    if fr < FMIN[c] or fr.numerator > FMAX["long double"] or fr.denominator > FMAX["long double"]:
        return "band"
    return "in"


def worst(*st):
    return "outside" if "outside" in st else ("band" if "band" in st else "in")


def unit_pairs():
    """(name, U1, U2, model k = U1/U2) over named / prefixed / powered / compound / dimensionless / origin-carrying
    units: k comes from the independent unit table in vf/model.py."""
    U = model.LIB_BY_STEM
    P = {p[0]: model.prefix_mag(p) for p in model.ALL_PREFIXES}
    mm = model.vmul

    def q(a, b):
        return model.vdiv(a, b)
    m1 = {}
    out = [
        ("ft->in", "au::Feet", "au::Inches", q(U["feet"].mag, U["inches"].mag)),                       # 12
        ("in->ft", "au::Inches", "au::Feet", q(U["inches"].mag, U["feet"].mag)),                       # 1/12
        ("yd->in", "au::Yards", "au::Inches", q(U["yards"].mag, U["inches"].mag)),                     # 36
        ("score->ft", "c06::Score", "au::Feet", model.mag_int(20)),                                    # 20: int16 no, uint16 yes
        ("mi->in", "au::Miles", "au::Inches", q(U["miles"].mag, U["inches"].mag)),                     # 63360
        ("km->mm", "au::Kilo<au::Meters>", "au::Milli<au::Meters>", q(P["Kilo"], P["Milli"])),         # 10^6 <= 1000225
        ("mi->mm", "au::Miles", "au::Milli<au::Meters>", q(U["miles"].mag, P["Milli"])),               # 1609344: int32 no, uint32 yes
        ("m->um", "au::Meters", "au::Micro<au::Meters>", q(m1, P["Micro"])),
        ("h->s", "au::Hours", "au::Seconds", U["hours"].mag),
        ("d->ms", "au::Days", "au::Milli<au::Seconds>", q(U["days"].mag, P["Milli"])),                 # 8.64e7
        ("PB->b", "au::Peta<au::Bytes>", "au::Bits", mm(P["Peta"], U["bytes"].mag)),                   # 8e15: int64 no, uint64 yes
        ("KiB->b", "au::Kibi<au::Bytes>", "au::Bits", mm(P["Kibi"], U["bytes"].mag)),                  # 8192
        ("m^3->mm^3", "decltype(au::pow<3>(au::Meters{}))", "decltype(au::pow<3>(au::Milli<au::Meters>{}))", model.vpow(q(m1, P["Milli"]), 3)),
        ("m^2->mm^2", "decltype(au::pow<2>(au::Meters{}))", "decltype(au::pow<2>(au::Milli<au::Meters>{}))", model.vpow(q(m1, P["Milli"]), 2)),
        ("ft^2->in^2", "decltype(au::pow<2>(au::Feet{}))", "decltype(au::pow<2>(au::Inches{}))", model.vpow(q(U["feet"].mag, U["inches"].mag), 2)),
        ("km/h->m/s", "decltype(au::Kilo<au::Meters>{} / au::Hours{})", "decltype(au::Meters{} / au::Seconds{})", q(P["Kilo"], U["hours"].mag)),   # 5/18
        ("m/s->km/h", "decltype(au::Meters{} / au::Seconds{})", "decltype(au::Kilo<au::Meters>{} / au::Hours{})", q(U["hours"].mag, P["Kilo"])),   # 18/5
        ("km/h->m/h", "decltype(au::Kilo<au::Meters>{} / au::Hours{})", "decltype(au::Meters{} / au::Hours{})", P["Kilo"]),
        ("1->%", "au::Unos", "au::Percent", q(m1, U["percent"].mag)),                                  # 100
        ("%->1", "au::Percent", "au::Unos", U["percent"].mag),                                         # 1/100
        ("degC->K", "au::Celsius", "au::Kelvins", {}),                                                 # k = 1, distinct named units
        ("K->mdegC", "au::Kelvins", "au::Milli<au::Celsius>", q(m1, P["Milli"])),
        ("rev->deg", "au::Revolutions", "au::Degrees", q(U["revolutions"].mag, U["degrees"].mag)),     # 360 (pi cancels)
        ("deg->rad", "au::Degrees", "au::Radians", U["degrees"].mag),                                  # pi/180
        ("rt(m)->rt(cm)", "decltype(au::root<2>(au::Meters{}))", "decltype(au::root<2>(au::Centi<au::Meters>{}))", model.vpow(q(m1, P["Centi"]), Fr(1, 2))),   # 10
        ("rt(m)->rt(mm)", "decltype(au::root<2>(au::Meters{}))", "decltype(au::root<2>(au::Milli<au::Meters>{}))", model.vpow(q(m1, P["Milli"]), Fr(1, 2))),   # 10^(3/2)
        ("1/ms->Hz", "decltype(au::pow<-1>(au::Milli<au::Seconds>{}))", "au::Hertz", model.vinv(P["Milli"])),   # 1000
        ("Hz->1/min", "au::Hertz", "decltype(au::pow<-1>(au::Minutes{}))", U["minutes"].mag),          # 60
    ]
    return out


CMP = ["==", "!=", "<", "<=", ">", ">="]


def lit(r, x):
    if x >= 0:
        return "static_cast<%s>(%dULL)" % (r, x)
    if x == -(2 ** 63):
        return "static_cast<%s>(-9223372036854775807LL - 1)" % r
    return "static_cast<%s>(%dLL)" % (r, x)


def i128lit(x):
    if x >= 0:
        return "static_cast<c06::i128>(%dULL)" % x
    if x == -(2 ** 63):
        return "(static_cast<c06::i128>(-9223372036854775807LL) - 1)"
    return "static_cast<c06::i128>(%dLL)" % x


def q_cell(kname, ukind, U1, U2, k, r1, r2, identical_unit):
    """One Quantity cell: statements + metadata."""
    Q1 = "au::Quantity<%s, %s>" % (U1, r1)
    Q2 = "au::Quantity<%s, %s>" % (U2, r2)
    rb = "double" if canon(r2) != "double" else "float"
    QB = "au::Quantity<%s, %s>" % (U2, rb)
    exp = policy(r1, r2, k)
    stm = ['vf_b("conv", std::is_convertible<%s, %s>::value);' % (Q1, Q2),
           'vf_b("ctor", std::is_constructible<%s, %s>::value);' % (Q2, Q1),
           'vf_b("asg", std::is_assignable<%s &, %s>::value);' % (Q2, Q1),
           'vf_b("pick", c06::Picks<%s, %s>::value);' % (Q1, Q2),
           'vf_b("common", c06::HasCommon<%s, %s>::value);' % (Q1, Q2),
           # cv/ref-qualified sources and direct-initialisation must answer the same question
           'vf_i("cv", (std::is_convertible<const %s &, %s>::value ? 1 : 0) + (std::is_convertible<%s &&, %s>::value ? 2 : 0) + '
           '(std::is_convertible<const %s, %s>::value ? 4 : 0) + (std::is_constructible<%s, const %s &>::value ? 8 : 0) + '
           '(std::is_convertible<%s &, %s>::value ? 16 : 0));' % (Q1, Q2, Q1, Q2, Q1, Q2, Q2, Q1, Q1, Q2),
           'vf_i("pick2", c06::Pick2<%s, %s, %s>::value);' % (Q1, Q2, QB)]
    # model of the two-overload call: exact match wins, one viable user conversion is taken, two are ambiguous
    if identical_unit and r1 == r2:
        p2 = 1
    elif identical_unit and r1 == rb:
        p2 = 2
    else:
        p2 = 0 if exp else 2
    m = {"kind": "q", "k": kname, "ukind": ukind, "r1": r1, "r2": r2, "exp": exp, "pick2": p2, "conv_stmts": []}
    c1, c2 = canon(r1), canon(r2)
    if float_status(core.common_rep(c1, rb), k) != "in":
        # the floating twin overload itself could not perform its (permitted) conversion: ask pick2 only where the twin is sound
        stm = [s_ for s_ in stm if 'vf_i("pick2"' not in s_]
    if exp and c2 in I8 and c1 in I8:
        kk = int(model.mag_fraction(k)) if k else 1
        lo = max(tmin(c1), -(-tmin(c2) // kk) if tmin(c2) < 0 else 0)
        hi = min(tmax(c1), tmax(c2) // kk)
        # every input that does not overflow must convert exactly; the two ends also in a constant expression
        stm.append('{ long long n = 0, bad = 0; c06::i128 first = 0; using V = c06::Val<%s, %s, %s>; '
                   'V::sweep(%s, %s, %s, n, bad, first); constexpr bool cx = V::one(%s, %s) && V::one(%s, %s); '
                   'vf_i("n", n); vf_i("bad", bad); vf_s("first", c06::i128s(first)); vf_b("cx", cx); }'
                   % (Q2, U1, r1, i128lit(lo), i128lit(hi), i128lit(kk), lit(r1, lo), i128lit(kk), lit(r1, hi), i128lit(kk)))
        m["vals"] = (lo, hi, kk)
        m["conv_stmts"].append(len(stm) - 1)
    elif exp and c2 in F3:
        st = float_status(core.common_rep(c1, c2), k)
        m["fstatus"] = st
        if st == "in":
            stm.append('{ %s q2 = au::make_quantity<%s>(static_cast<%s>(1)); (void)q2; vf_b("did", true); }' % (Q2, U1, r1))
            m["conv_stmts"].append(len(stm) - 1)
        else:
            # the model expects the body of this permitted conversion not to compile: perform it, and the overload
            # resolution questions (g++ instantiates constexpr bodies for them), in probes of their own
            m["probes"] = [("ctor", "%s q2 = au::make_quantity<%s>(static_cast<%s>(1)); (void)q2;" % (Q2, U1, r1)),
                           ("pick", 'static_assert(c06::Picks<%s, %s>::value, "");' % (Q1, Q2)),
                           ("pick2", 'static_assert(c06::Pick2<%s, %s, %s>::value == %d, "");' % (Q1, Q2, QB, p2))]
            stm = [s_ for s_ in stm if 'vf_b("pick"' not in s_ and 'vf_i("pick2"' not in s_]
            m["nopick"] = True
    return stm, m


def check(run):
    tier = run.tier
    quick = tier == "quick"
    grid = ratio_grid(tier) + extreme_grid(tier)
    upairs = unit_pairs()
    cfgs = core.CORNERS if quick else core.CORNERS + [c for c in core.CFG6 if c not in core.CORNERS]
    recs, meta = [], {}

    def add(stm, m):
        recs.append((len(recs), stm))
        meta[len(recs) - 1] = m

    # ---- Quantity cells: Meters*k -> Meters over the ratio grid, all 11x11 rep pairs
    for (kname, k) in grid:
        u1s = [("scaled", src_unit(k))]
        if not k:
            u1s.append(("equiv", "decltype(au::Feet{} * au::mag<1250>() / au::mag<381>())"))
        for (ukind, U1) in u1s:
            for r1 in R11:
                for r2 in R11:
                    add(*q_cell(kname, ukind, U1, "au::Meters", k, r1, r2, not k and ukind == "scaled"))
    # ---- named / prefixed / powered / compound / dimensionless / origin-carrying unit pairs
    up_r1 = ["int8_t", "uint16_t", "int32_t", "uint64_t", "float"] if quick else R11
    for (name, U1, U2, k) in upairs:
        for r1 in up_r1:
            for r2 in R11:
                add(*q_cell(name, "pair", U1, U2, k, r1, r2, False))
    # ---- different dimensions ("true exactly when the dimensions match"): the predicate must answer no for every rep pair,
    #      whatever the magnitudes (equal magnitudes are the case where only the dimension can say no), without a hard error
    xdim = [("m->s", "au::Meters", "au::Seconds"), ("s->Hz", "au::Seconds", "au::Hertz"), ("m->m/s", "au::Meters", "decltype(au::Meters{} / au::Seconds{})"),
            ("km->ks", "au::Kilo<au::Meters>", "au::Kilo<au::Seconds>"), ("m->g", "au::Meters", "au::Grams"), ("ft->min", "au::Feet", "au::Minutes"),
            ("rad->1", "au::Radians", "au::Unos"), ("m^2->m", "decltype(au::squared(au::Meters{}))", "au::Meters")]
    xd_r = ["int8_t", "uint16_t", "int32_t", "uint64_t", "double"] if quick else R11
    for (name, U1, U2) in xdim:
        for r1 in xd_r:
            for r2 in xd_r:
                stm, m = q_cell("xdim:" + name, "xdim", U1, U2, {}, r1, r2, False)
                stm = [x for k_, x in enumerate(stm) if k_ not in m["conv_stmts"] and 'vf_i("pick2"' not in x]
                m.update({"exp": False, "conv_stmts": [], "xdim": True})
                m.pop("vals", None)
                m.pop("pick2", None)
                add(stm, m)
    # ---- long long / unsigned long long (distinct types of the same width as int64_t / uint64_t)
    th64, thu64 = tmax("int64_t") // 2147, tmax("uint64_t") // 2147
    xl_pairs = [(a, b) for a in XL for b in XL + ["int32_t", "int64_t", "uint64_t", "double"]]
    xl_pairs += [(b, a) for a in XL for b in ["int32_t", "int64_t", "uint64_t", "double"]]
    for kk in (1, 10 ** 9, th64, th64 + 1, thu64, thu64 + 1):
        k = model.mag_int(kk) if kk > 1 else {}
        for (r1, r2) in xl_pairs:
            add(*q_cell(str(kk), "scaled", src_unit(k), "au::Meters", k, r1, r2, not k))
    # ---- QuantityPoint cells
    pts = [("K->mK", "au::Kelvins", "au::Milli<au::Kelvins>", model.mag_int(1000), True),
           ("mK->K", "au::Milli<au::Kelvins>", "au::Kelvins", model.mag_ratio(1, 1000), True),
           ("K->K", "au::Kelvins", "au::Kelvins", {}, True),
           ("kK->K", "au::Kilo<au::Kelvins>", "au::Kelvins", model.mag_int(1000), True),
           ("C->K", "au::Celsius", "au::Kelvins", {}, False),
           ("K->C", "au::Kelvins", "au::Celsius", {}, False),
           ("C->mK", "au::Celsius", "au::Milli<au::Kelvins>", model.mag_int(1000), False),
           ("C->cK", "au::Celsius", "au::Centi<au::Kelvins>", model.mag_int(100), False),
           ("F->C", "au::Fahrenheit", "au::Celsius", model.mag_ratio(5, 9), False),
           ("C->F", "au::Celsius", "au::Fahrenheit", model.mag_ratio(9, 5), False),
           ("PtA->K", "c06::PtA", "au::Kelvins", model.mag_ratio(3, 7), False),
           ("PtB->K", "c06::PtB", "au::Kelvins", {}, False),
           ("K->PtB", "au::Kelvins", "c06::PtB", {}, False),
           ("PtA->PtB", "c06::PtA", "c06::PtB", model.mag_ratio(3, 7), False),
           ("TK->K", "au::Tera<au::Kelvins>", "au::Kelvins", model.mag_int(10 ** 12), True)]
    for (name, U1, U2, k, same_origin) in pts:
        for r1 in R11:
            for r2 in R11:
                P1 = "au::QuantityPoint<%s, %s>" % (U1, r1)
                P2 = "au::QuantityPoint<%s, %s>" % (U2, r2)
                add(['vf_b("conv", std::is_convertible<%s, %s>::value);' % (P1, P2),
                     'vf_b("ctor", std::is_constructible<%s, %s>::value);' % (P2, P1)],
                    {"kind": "p", "name": name, "r1": r1, "r2": r2, "qexp": policy(r1, r2, k), "same_origin": same_origin})
                # overload resolution in its own record, so that a hard error is attributed to it alone
                add(['vf_b("pick", c06::Picks<%s, %s>::value);' % (P1, P2),
                     'vf_b("conv", std::is_convertible<%s, %s>::value);' % (P1, P2)],
                    {"kind": "pp", "name": name, "r1": r1, "r2": r2})
    ncells = len(recs)
    cnt = {"common_type_absent_for_forbidden_cell": 0, "point_cells_stricter_than_quantity_predicate": 0,
           "float_factor_band_not_judged": 0, "values_converted": 0, "permitted_float_conversions_performed": 0,
           "constexpr_boundary_conversions": 0}
    both = set()
    more_permissive = set()

    def qdesc(m):
        return "k=%s:%s:%s->%s" % (m["k"], m["ukind"], m["r1"], m["r2"])

    dbg = os.environ.get("VERIF_DEBUG")

    def cpu():
        import resource
        ru = resource.getrusage(resource.RUSAGE_CHILDREN)
        return "cpu=%ds" % (ru.ru_utime + ru.ru_stime)
    # ---- probes: conversions the model expects not to compile although permitted, unit-only forms, mixed-unit operators
    probes, pmeta = [], {}

    def probe(code, want, what, batch_as=None, dedup=None, only20=False, batch_clang=None):
        # want = what the statement demands; batch_as = the verdict the model predicts (only used to batch efficiently)
        pid = len(probes)
        probes.append(core.Probe(pid, code, batch_as or want, {"dedup": dedup} if dedup else {}))
        pmeta[pid] = {"want": want, "what": what, "only20": only20, "batch": (batch_as or want, batch_clang or batch_as or want)}

    for r in range(ncells):
        m = meta[r]
        if m.get("probes"):
            if m["fstatus"] == "band":
                cnt["float_factor_band_not_judged"] += 1
                continue
            c = core.common_rep(canon(m["r1"]), canon(m["r2"]))
            for (what, code) in m["probes"]:
                # (overload resolution alone instantiates the constructor body under g++ only; an ambiguous call under neither)
                probe(code, "accept", "%s %s factor-outside-%s" % (what, qdesc(m), c), batch_as="accept" if what == "pick2" else "reject",
                      dedup="out:%s:%s" % (m["k"], c), batch_clang="reject" if what == "ctor" else "accept")
    FORMS = [("as(U)", "(void)q.as(%s{});"), ("in(U)", "(void)q.in(%s{});"), ("as(maker)", "(void)q.as(au::QuantityMaker<%s>{});"),
             ("in(maker)", "(void)q.in(au::QuantityMaker<%s>{});"), ("as(symbol)", "(void)q.as(au::SymbolFor<%s>{});"),
             ("in(symbol)", "(void)q.in(au::SymbolFor<%s>{});"), ("as(constant)", "(void)q.as(au::make_constant(%s{}));")]
    nurej = [0]
    ucells = [(kname, src_unit(k), "au::Meters", k) for (kname, k) in grid] + [(n, a, b, k) for (n, a, b, k) in upairs]
    for (kname, U1, U2, k) in ucells:
        for r in R11:
            exp = policy(r, r, k)
            decl = "auto q = au::make_quantity<%s>(static_cast<%s>(1)); " % (U1, r)
            if exp:
                st = float_status(r, k) if r in F3 else "in"
                if st == "band":
                    cnt["float_factor_band_not_judged"] += 1
                    continue
                code = decl + " ".join(f % U2 for _, f in FORMS)
                if st == "outside":
                    probe(code, "accept", "unit-only all-forms k=%s rep=%s factor-outside-%s" % (kname, r, r), batch_as="reject", dedup="out:%s:%s" % (kname, r))
                else:
                    probe(code, "accept", "unit-only all-forms k=%s rep=%s" % (kname, r))
            else:
                forms = FORMS if not quick else [FORMS[0], FORMS[1 + nurej[0] % 6]]
                nurej[0] += 1
                for fname, f in forms:
                    probe(decl + f % U2, "reject", "unit-only %s k=%s rep=%s" % (fname, kname, r), dedup="k:%s:%s" % (kname, r))
    rp = [("int16_t", "int32_t"), ("int32_t", "int16_t"), ("int32_t", "int64_t"), ("int64_t", "int32_t"),
          ("uint16_t", "uint32_t"), ("uint32_t", "uint64_t"), ("uint64_t", "uint32_t"), ("int32_t", "int32_t"),
          ("uint64_t", "uint64_t"), ("int8_t", "int8_t"), ("uint8_t", "int32_t"), ("int32_t", "double"),
          ("float", "int64_t"), ("float", "double"), ("int64_t", "uint64_t"), ("uint32_t", "int32_t"),
          ("int8_t", "int16_t"), ("uint8_t", "uint16_t"), ("int16_t", "uint16_t"), ("float", "float")]
    rp_up = [("int16_t", "int32_t"), ("uint32_t", "int32_t"), ("int64_t", "uint64_t"), ("uint8_t", "uint16_t"), ("float", "int64_t"),
             ("int64_t", "int64_t")]
    rp_all = [(a, b) for a in R11 for b in R11]
    full = set(rp)
    if not quick:
        full |= {(a, b) for (a, b) in rp_all if (R11.index(a) + 3 * R11.index(b)) % 8 == 0}
        rp_up = rp
    nrejcell, ncomp = [0], [0]
    # thorough: all 121 rep pairs (reciprocal ratios, the mirror images of the integer ones: the 20 selected pairs)
    mcells = [(kname, src_unit(k), "au::Meters", k, (rp if (quick or kname.startswith("1/")) else rp_all)) for (kname, k) in grid]
    mcells += [(n, a, b, k, rp_up) for (n, a, b, k) in upairs]
    for (kname, U1, U2, k, pairs) in mcells:
        if model.mag_is_rational(k):
            fr = model.mag_fraction(k) if k else Fr(1)
            n, dd = fr.numerator, fr.denominator
        else:
            n = dd = None
        for (r1, r2) in pairs:
            c = core.common_rep(r1, r2)
            ints = c in I8
            if c in F3:
                exp = True
            elif n is None:
                exp = False
            else:
                exp = all(x == 1 or 2147 * x <= tmax(c) for x in (n, dd))
            decl = "auto a = au::make_quantity<%s>(static_cast<%s>(1)); auto b = au::make_quantity<%s>(static_cast<%s>(1)); " % (U1, r1, U2, r2)
            cell = "k=%s reps=%s,%s" % (kname, r1, r2)
            fst = "in"       # both operands are scaled to the common unit by the integers n and dd, in the common rep
            if c in F3 and n:
                fst = worst(float_status(c, Fr(n)), float_status(c, Fr(dd)))
            if (r1, r2) not in full:
                # (thorough, remaining rep pairs) two root operators, both directions in one probe
                if fst == "in":
                    for op in ("==", "+"):
                        probe(decl + "(void)(a %s b); (void)(b %s a);" % (op, op), "accept" if exp else "reject", "mixed %s %s" % (op, cell))
                continue
            sym = [(op, "(void)(a %s b);" % op, "(void)(b %s a);" % op, False) for op in CMP + ["+", "-"]]
            sym += [("min", "(void)min(a, b);", "(void)min(b, a);", False), ("max", "(void)max(a, b);", "(void)max(b, a);", False),
                    ("clamp", "(void)clamp(a, b, b);", "(void)clamp(b, a, a);", False), ("clamp3", "(void)clamp(a, a, b);", "(void)clamp(b, a, b);", False)]
            if ints:
                sym.append(("%", "(void)(a % b);", "(void)(b % a);", False))
            sym.append(("<=>", "(void)(a <=> b);", "(void)(b <=> a);", True))
            if exp:
                st = fst
                if st == "band":
                    cnt["float_factor_band_not_judged"] += 1
                else:
                    for only20 in (False, True):
                        body = " ".join(x[1] + " " + x[2] for x in sym if x[3] == only20)
                        if st == "outside":
                            probe(decl + body, "accept", "mixed all-ops%s %s factor-outside-%s" % ("-20" if only20 else "", cell, c),
                                  batch_as="reject", dedup="out:%s:%s" % (kname, c), only20=only20)
                        else:
                            probe(decl + body, "accept", "mixed all-ops%s %s" % ("-20" if only20 else "", cell), only20=only20)
            else:
                # every rejection is demanded per operator and per operand order (one probe each).  quick: the four root
                # operators in alternating order plus three of the other ~20 operator/order combinations, rotating with the cell
                # index (every combination on every 7th forbidden cell); thorough: the root operators in both orders plus eight
                dk = "k:%s:%s" % (kname, c)
                directed = [(op, d, code, o20) for (op, ab, ba, o20) in sym for (d, code) in (("a%sb", ab), ("b%sa", ba))]
                root = [x for x in directed if x[0] in ("==", "<", "+", "-")]
                rest = [x for x in directed if x[0] not in ("==", "<", "+", "-")]
                if quick:
                    chosen = [root[2 * j + (nrejcell[0] + j) % 2] for j in range(4)]
                    chosen += [rest[(3 * nrejcell[0] + t) % len(rest)] for t in range(3)]
                else:
                    chosen = root + [rest[(8 * nrejcell[0] + t) % len(rest)] for t in range(8)]
                nrejcell[0] += 1
                for (op, d, code, o20) in chosen:
                    probe(decl + code, "reject", "mixed %s %s" % (d % op, cell), dedup=dk, only20=o20)
            # compound assignment asks the asymmetric question (operand -> type of the left-hand side)
            comp = []
            for (lhs, rhs, rs, rd, kk_) in (("a", "b", r2, r1, model.vinv(k)), ("b", "a", r1, r2, k)):
                e2 = policy(rs, rd, kk_)
                st = float_status(core.common_rep(rs, rd), kk_) if (e2 and rd in F3) else "in"
                if st == "band":
                    cnt["float_factor_band_not_judged"] += 1
                    continue
                for op in ("+=", "-="):
                    comp.append((lhs, rhs, op, e2, st, core.common_rep(rs, rd)))
            if quick:
                comp = [x for i, x in enumerate(comp) if (i + ncomp[0]) % 2 == 0]
            ncomp[0] += 1
            for (lhs, rhs, op, e2, st, cc) in comp:
                what = "mixed %s%s%s %s" % (lhs, op, rhs, cell)
                if e2 and st == "outside":
                    probe(decl + "%s %s %s;" % (lhs, op, rhs), "accept", what + " factor-outside-%s" % cc, batch_as="reject", dedup="out:%s:%s" % (kname, cc))
                else:
                    probe(decl + "%s %s %s;" % (lhs, op, rhs), "accept" if e2 else "reject", what)
    acc = {"evals": 0, "nacc": 0, "nrej": 0, "nprog": 0}

    def do_dump(cfg):
        if dbg:
            print("dump", cfg, len(recs), round(run.elapsed()), cpu(), flush=True)
        res, failed = psx.run_dump(cfg, recs, os.path.join(run.wd, cfg.name), "c06", PREAMBLE,
                                   flags=cflags(cfg), chunk=max(40, len(recs) // (core.NCPU * 3) + 1))
        # a failing record that performs a conversion is re-run without it: is *asking* the hard error, or *doing*?
        retry = [(r, [s for i, s in enumerate(recs[r][1]) if i not in meta[r]["conv_stmts"]])
                 for r in failed if meta[r].get("conv_stmts")]
        asking_ok = {}
        if retry:
            asking_ok, _ = psx.run_dump(cfg, retry, os.path.join(run.wd, cfg.name), "c06retry", PREAMBLE, flags=cflags(cfg), chunk=40)
            res.update(asking_ok)
        for r, diag in failed.items():
            m = meta[r]
            if r in asking_ok:
                key = "C06:permitted-does-not-compile:ctor:%s" % qdesc(m)
                run.violation(key, "%s: the predicate permits %s and every trait answers, but performing the conversion does not compile: %s" % (cfg, qdesc(m), diag),
                              run.write_replay(key, {"kind": "program", "config": str(cfg), "stmts": recs[r][1], "diag": diag}))
                continue
            desc = ("%s:%s:%s->%s" % (m.get("k", m.get("name")), m.get("ukind", "pt"), m["r1"], m["r2"]))
            if m["kind"] == "pp":
                desc = "overload-resolution:" + desc
            key = "C06:hard-error:%s:%s" % (m["kind"], desc)
            run.violation(key, "%s: asking whether the conversion %s is implicit is a hard error: %s" % (cfg, desc, diag),
                          run.write_replay(key, {"kind": "program", "cell": {k: v for k, v in m.items() if k != "vals"},
                                                 "config": str(cfg), "stmts": recs[r][1], "diag": diag}))
        for r, o in res.items():
            m = meta[r]
            acc["evals"] += 1
            if m["kind"] == "q":
                desc = qdesc(m)

                def viol(kind, what):
                    key = "C06:%s:%s" % (kind, desc)
                    run.violation(key, "%s: %s" % (cfg, what),
                                  run.write_replay(key, {"kind": "program", "config": str(cfg), "observed": o, "stmts": recs[r][1]}))
                for f in ("conv", "ctor", "asg", "pick"):
                    if f in o and o[f] != m["exp"]:
                        viol("policy:%s" % f, "%s says %s but the documented predicate is %s for %s" % (f, o[f], m["exp"], desc))
                if o["cv"] != (31 if m["exp"] else 0):
                    viol("policy:cvref", "const&/&&/const/direct-init/lvalue sources answer %d (bit set) but the documented predicate is %s for %s" % (o["cv"], m["exp"], desc))
                if "pick2" in o and o["pick2"] != m["pick2"]:
                    viol("pick2", "call with two Quantity overloads (target, floating twin) resolves to %d, model %d (0 = ill-formed, SFINAE-friendly) for %s" % (o["pick2"], m["pick2"], desc))
                if not o["common"]:
                    if m["exp"]:
                        viol("common-type-missing", "std::common_type missing although the conversion is permitted: %s" % desc)
                    else:
                        cnt["common_type_absent_for_forbidden_cell"] += 1   # the statement's literal reading allows this
                if "bad" in o:
                    acc["evals"] += o["n"]
                    cnt["values_converted"] += o["n"]
                    cnt["constexpr_boundary_conversions"] += 2
                    if o["bad"]:
                        viol("value", "permitted conversion %s is not x*k for x=%s (%d bad of %d)" % (desc, o["first"], o["bad"], o["n"]))
                        # keep the historical key shape too
                    if not o["cx"]:
                        viol("value-constexpr", "permitted conversion %s of an end of the non-overflowing range [%d,%d] is not exact in a constant expression" % ((desc,) + m["vals"][:2]))
                if o.get("did"):
                    cnt["permitted_float_conversions_performed"] += 1
                both.add((desc, o["conv"]))
            elif m["kind"] == "pp":
                desc = "%s:%s->%s" % (m["name"], m["r1"], m["r2"])
                if o["pick"] != o["conv"]:
                    run.violation("C06:point-pick:%s" % desc, "%s: overload resolution and is_convertible disagree for point conversion %s: %s" % (cfg, desc, o),
                                  run.write_replay("C06:point-pick:%s" % desc, {"kind": "program", "config": str(cfg), "observed": o, "stmts": recs[r][1]}))
            else:
                desc = "%s:%s->%s" % (m["name"], m["r1"], m["r2"])
                rp_ = {"kind": "program", "config": str(cfg), "observed": o, "stmts": recs[r][1]}
                if o["conv"] != o["ctor"]:
                    run.violation("C06:point-inconsistent:%s" % desc, "%s: is_convertible/is_constructible disagree for %s: %s" % (cfg, desc, o),
                                  run.write_replay("C06:point-inconsistent:%s" % desc, rp_))
                if m["same_origin"] and o["conv"] and not m["qexp"]:
                    run.violation("C06:point-policy:%s" % desc, "%s: equal-origin point conversion %s is implicit but the quantity predicate forbids its difference type" % (cfg, desc),
                                  run.write_replay("C06:point-policy:%s" % desc, rp_))
                if m["same_origin"] and not o["conv"] and m["qexp"]:
                    cnt["point_cells_stricter_than_quantity_predicate"] += 1   # the statement defines no predicate for points
                if not m["same_origin"] and o["conv"] and not m["qexp"]:
                    more_permissive.add(desc)   # recorded, not judged: the statement defines no predicate for points

    def do_probes(cfg, only):
        # operator<=> exists only from C++20 on: its probes run under the C++20 configurations only
        is20 = cfg.std == "c++20"
        sel = [p for p in probes if (pmeta[p.pid]["only20"] <= is20) and (only is None or pmeta[p.pid]["only20"])]
        for p in sel:
            p.expect = pmeta[p.pid]["batch"][1 if cfg.is_clang else 0]
        if dbg:
            print("probes", cfg, len(sel), sum(1 for p in sel if p.expect == "reject"), round(run.elapsed()), cpu(), dict(core.STATS), flush=True)
        res, srcs = core.run_probes(cfg, sel, os.path.join(run.wd, "probes_" + cfg.name), "c06p", PREAMBLE, flags=cflags(cfg))
        acc["nprog"] += len(sel)
        for p in sel:
            v, diag = res[p.pid]
            pm = pmeta[p.pid]
            acc["evals"] += 1
            acc["nacc"] += v == "accept"
            acc["nrej"] += v == "reject"
            if v != pm["want"]:
                key = "C06:%s:%s" % ("unexpected-" + v, pm["what"])
                run.violation(key, "%s: `%s` is %sed but the documented predicate says %s (%s)" % (cfg, p.code, v, pm["want"], diag),
                              run.write_replay(key, {"kind": "program", "config": str(cfg), "code": p.code, "expected": pm["want"], "observed": v, "diag": diag}))

    if os.environ.get("C06_COUNT"):
        print("records", len(recs), "probes", len(probes), "reject-batched", sum(1 for p in probes if p.expect == "reject"))
        raise SystemExit(0)
    # development aid (mutation demonstrations): C06_PARTS=cells|probes runs one half only; evidence then says so
    parts = os.environ.get("C06_PARTS", "")
    # thorough: corners first; a further configuration is started only if the time left covers it (measured on the previous one)
    done, per_cfg = [], None
    for cfg in cfgs:
        if per_cfg is not None and run.time_left() < 1.3 * per_cfg:
            break
        t0 = run.elapsed()
        if parts in ("", "cells"):
            do_dump(cfg)
        if parts in ("", "probes"):
            do_probes(cfg, None)
        done.append(cfg)
        per_cfg = run.elapsed() - t0
    if quick and parts in ("", "probes"):
        do_probes(core.GXX20, True)      # quick: g++/c++20 for the operator<=> probes alone
    if dbg:
        print("end", round(run.elapsed()), cpu(), dict(core.STATS), flush=True)
    evals, nacc, nrej, nprog = acc["evals"], acc["nacc"], acc["nrej"], acc["nprog"]
    complete = len(done) == len(cfgs) and not parts
    descs = {}
    for d_, v in both:
        descs.setdefault(d_.split(":", 1)[0], set()).add(v)
    nontriv = sum(1 for v in descs.values() if len(v) == 2)
    run.cov.update({
        "evaluations": evals, "programs": ncells * len(done) + nprog,
        "cells": ncells, "probes": len(probes), "probe_accepts": nacc, "probe_rejects": nrej,
        "ratios": [g[0] for g in grid], "unit_pairs": [u[0] for u in upairs], "configs": [str(c) for c in done] + (["%s (operator<=> probes only)" % core.GXX20] if quick else []),
        "distinct_nontrivial": nontriv,
        "point_cells_more_permissive_than_difference_type": len(more_permissive),
        "rule": "cells = (R1,R2) in 11x11 arithmetic reps x unit ratio k from a grid straddling every rep's 2147-threshold and maximum "
                "(plus reciprocals, rationals, pi, sqrt2, factors no rep can hold, factors outside float/double/long double) x {Quantity, QuantityPoint with equal/different origins}; "
                "plus an enumerated alphabet of named/prefixed/powered/compound/dimensionless/origin-carrying unit pairs (quick: 5 source reps x 11 target reps) "
                "and long long / unsigned long long cells; each cell evaluates is_convertible/is_constructible/is_assignable, const&/&&/const/lvalue sources, "
                "overload pick against an ellipsis and against a floating twin overload, and common_type in a TU that must compile (totality); "
                "every permitted cell performs the conversion: integral targets convert every |x|<=2147, the neighbourhoods of both ends of the non-overflowing "
                "input range, of their halves and thirds and the lattice +-2^j+{-1,0,1} exactly (ends also in a constant expression), floating targets convert once; "
                "unit-only .as/.in with unit, maker, symbol and constant slots and mixed-unit ==,!=,<,<=,>,>=,<=>,+,-,%,min,max,clamp (both operand orders) and +=,-= "
                "(asymmetric predicate) are accept/reject probes. distinct_nontrivial = number of ratios k for which both a permitted and a forbidden (R1,R2) cell were observed.",
        "exhaustive": complete, "exhaustive_note": "the stated finite grid is enumerated completely; ratios outside the grid are not covered; for forbidden mixed-unit cells the "
                                                   "four root operators are probed on every cell (quick: alternating operand order) and the other operator/order "
                                                   "combinations follow a fixed rotation over the cell index (quick 3, thorough 8 per cell), unit-only slot forms likewise"
                                                   + ("" if complete else "; stopped before configurations %s (time budget)" % [str(c) for c in cfgs[len(done):]]),
        "samples": [{"cell": "k=%s %s->%s" % (meta[r]["k"], meta[r]["r1"], meta[r]["r2"]), "expected_implicit": meta[r]["exp"]}
                    for r in list(range(0, ncells, max(1, ncells // 6)))[:6] if meta[r]["kind"] == "q"],
    })
    run.cov.update(cnt)
    run.assumptions += ["documented predicate transcribed in policy(): floating target, or integral source and integer k with 2147*k <= max(R2), or k == 1 between integral reps",
                        "for QuantityPoint only totality, 'equal origins: never implicit where the Quantity predicate forbids the difference type' and "
                        "'never more permissive than the difference type' (recorded) are judged; stricter point cells are counted",
                        "std::common_type must exist for permitted cells; its absence for forbidden cells is counted, not judged (either reading of the statement)",
                        "min, max, clamp and % are judged as members of the mixed-unit comparison/addition family (they convert both operands to the common type)",
                        "a permitted conversion whose factor is representable in the floating type it is computed in must compile; factors representable only as denormals are not judged"]


def replay(path):
    import json
    r = json.load(open(path))
    wd = os.path.join(core.BUILD, "C06", "replay")
    os.makedirs(wd, exist_ok=True)
    cfg = [c for c in core.CFG6 if str(c) == r.get("config")]
    cfg = cfg[0] if cfg else core.GXX14
    if "code" in r:
        p = core.Probe(0, r["code"], r["expected"])
        res, _ = core.run_probes(cfg, [p], wd, "rp", PREAMBLE, flags=cflags(cfg))
        v = res[0][0]
        print("observed:", v, "expected:", r["expected"])
        if v != r["expected"]:
            print("VIOLATION property=C06 replay=%s" % path)
            return 1
        return 0
    res, failed = psx.run_dump(cfg, [(0, r["stmts"])], wd, "rp", PREAMBLE, flags=cflags(cfg))
    print("observed:", res.get(0), "failed:", failed)

    def strip(o):
        return {k: v for k, v in (o or {}).items() if k != "id"}
    if failed or (r.get("observed") and strip(res.get(0)) == strip(r["observed"])):
        print("VIOLATION property=C06 replay=%s" % path)
        return 1
    return 0
