"""C06 — implicit-conversion safety surface is total and as documented (program-space grid)."""
import os
from fractions import Fraction as Fr

from .. import core, model, psx
from ..core import BITS, F3, I8, R11, tmax, tmin
from ..sweep34 import cflags

LEVEL = "exploration"

PREAMBLE = r'''
namespace c06 {
template <typename To> char pick(To);
template <typename To> long pick(...);
template <typename From, typename To>
struct Picks { static constexpr bool value = sizeof(pick<To>(std::declval<From>())) == 1; };
template <typename A, typename B, typename = void> struct HasCommon : std::false_type {};
template <typename A, typename B>
struct HasCommon<A, B, vf::void_t<typename std::common_type<A, B>::type>> : std::true_type {};
// point units with explicit origins (rational multiples of a scaled base unit)
struct PtA : decltype(au::Kelvins{} * au::mag<3>() / au::mag<7>()) {
    static constexpr auto origin() { return (au::kelvins / au::mag<4>())(5); }   // 5/4 K
};
struct PtB : au::Kelvins {
    static constexpr auto origin() { return (au::kelvins / au::mag<6>())(-7); }  // -7/6 K
};
}
'''


def mag_expr(m):
    parts = []
    for b, e in sorted(m.items(), key=lambda kv: (kv[0] == "pi", kv[0] if kv[0] != "pi" else 0)):
        base = "au::Magnitude<au::Pi>{}" if b == "pi" else "au::mag<%du>()" % b
        if e.denominator == 1:
            parts.append(base if e == 1 else "au::pow<%d>(%s)" % (e.numerator, base))
        else:
            inner = base if e.numerator == 1 else "au::pow<%d>(%s)" % (e.numerator, base)
            parts.append("au::root<%d>(%s)" % (e.denominator, inner))
    return " * ".join(parts) if parts else "au::ONE"


def src_unit(m):
    if not m:
        return "au::Meters"
    return "decltype(au::Meters{} * (%s))" % mag_expr(m)


def policy(r1, r2, k):
    """The documented predicate. k: model magnitude of U1/U2."""
    if r2 in F3:
        return True
    if r1 in F3:
        return False
    if not k:
        return True
    if model.mag_is_integer(k):
        kk = int(model.mag_fraction(k))
        return 2147 * kk <= tmax(r2)
    return False


def ratio_grid(tier):
    ints = {2, 10, 1000, 10 ** 6, 10 ** 9, 10 ** 12, 10 ** 18, 10 ** 30, 3 * 2 ** 64}
    for t in I8:
        th = tmax(t) // 2147
        for dlt in (-1, 0, 1):
            if th + dlt >= 2:
                ints.add(th + dlt)
        ints.add(tmax(t) + 1)
    if tier == "quick":
        keep = {2, 1000, 10 ** 6, 10 ** 9, 10 ** 12, 10 ** 30, 3 * 2 ** 64}
        for t in ("int16_t", "uint16_t", "int32_t", "uint32_t", "int64_t", "uint64_t"):
            th = tmax(t) // 2147
            keep |= {th, th + 1}
        keep |= {tmax("int32_t") + 1, tmax("uint64_t") + 1, tmax("uint8_t") + 1}
        ints &= keep
    out = [("1", {})]
    for k in sorted(ints):
        out.append((str(k), model.mag_int(k)))
    recips = sorted(ints) if tier == "thorough" else [2, 1000, 10 ** 9, tmax("int32_t") // 2147 + 1, 10 ** 30]
    for k in recips:
        out.append(("1/%d" % k, model.mag_ratio(1, k)))
    out += [("3/2", model.mag_ratio(3, 2)), ("2/3", model.mag_ratio(2, 3)), ("pi", dict(model.MAG_PI)),
            ("1/pi", model.vinv(model.MAG_PI)), ("sqrt2", {2: Fr(1, 2)}),
            ("3000/7", model.mag_ratio(3000, 7))]
    return out


def check(run):
    tier = run.tier
    grid = ratio_grid(tier)
    cfgs = core.CORNERS if tier == "quick" else core.CFG6
    recs, meta = [], {}
    rid = 0
    # ---- Quantity cells
    for (kname, k) in grid:
        u1s = [("scaled", src_unit(k))]
        if not k:
            u1s.append(("equiv", "decltype(au::Feet{} * au::mag<1250>() / au::mag<381>())"))
        for (ukind, U1) in u1s:
            for r1 in R11:
                for r2 in R11:
                    Q1 = "au::Quantity<%s, %s>" % (U1, r1)
                    Q2 = "au::Quantity<au::Meters, %s>" % r2
                    exp = policy(r1, r2, k)
                    stm = ['vf_b("conv", std::is_convertible<%s, %s>::value);' % (Q1, Q2),
                           'vf_b("ctor", std::is_constructible<%s, %s>::value);' % (Q2, Q1),
                           'vf_b("asg", std::is_assignable<%s &, %s>::value);' % (Q2, Q1),
                           'vf_b("pick", c06::Picks<%s, %s>::value);' % (Q1, Q2),
                           'vf_b("common", c06::HasCommon<%s, %s>::value);' % (Q1, Q2)]
                    m = {"kind": "q", "k": kname, "ukind": ukind, "r1": r1, "r2": r2, "exp": exp}
                    if exp and r2 in I8 and r1 in I8:
                        kk = int(model.mag_fraction(k)) if k else 1
                        lo = max(-2147, tmin(r1), -(-tmin(r2) // kk) if tmin(r2) < 0 else 0)
                        hi = min(2147, tmax(r1), tmax(r2) // kk)
                        # every |x| <= 2147 that both reps can hold must convert exactly
                        stm.append(
                            '{ long long bad = 0, first = 0, n = 0; for (long long x = %d; x <= %d; ++x) { '
                            '%s q2 = au::make_quantity<%s>(static_cast<%s>(x)); ++n; '
                            'if (static_cast<__int128>(q2.in(au::Meters{})) != static_cast<__int128>(x) * %s) '
                            '{ if (!bad) first = x; ++bad; } } vf_i("n", n); vf_i("bad", bad); vf_i("first", first); }'
                            % (lo, hi, Q2, U1, r1, ("(__int128)%dLL" % kk)))
                        m["vals"] = (lo, hi, kk)
                    recs.append((rid, stm))
                    meta[rid] = m
                    rid += 1
    # ---- QuantityPoint cells
    pts = [("K->mK", "au::Kelvins", "au::Milli<au::Kelvins>", model.mag_int(1000), True),
           ("mK->K", "au::Milli<au::Kelvins>", "au::Kelvins", model.mag_ratio(1, 1000), True),
           ("K->K", "au::Kelvins", "au::Kelvins", {}, True),
           ("kK->K", "au::Kilo<au::Kelvins>", "au::Kelvins", model.mag_int(1000), True),
           ("C->K", "au::Celsius", "au::Kelvins", {}, False),
           ("K->C", "au::Kelvins", "au::Celsius", {}, False),
           ("C->mK", "au::Celsius", "au::Milli<au::Kelvins>", model.mag_int(1000), False),
           ("C->cK", "au::Celsius", "au::Centi<au::Kelvins>", model.mag_int(100), False),
           ("F->C", "au::Fahrenheit", "au::Celsius", model.mag_ratio(5, 9), False),
           ("C->F", "au::Celsius", "au::Fahrenheit", model.mag_ratio(9, 5), False),
           ("PtA->K", "c06::PtA", "au::Kelvins", model.mag_ratio(3, 7), False),
           ("PtB->K", "c06::PtB", "au::Kelvins", {}, False),
           ("K->PtB", "au::Kelvins", "c06::PtB", {}, False),
           ("PtA->PtB", "c06::PtA", "c06::PtB", model.mag_ratio(3, 7), False),
           ("TK->K", "au::Tera<au::Kelvins>", "au::Kelvins", model.mag_int(10 ** 12), True)]
    for (name, U1, U2, k, same_origin) in pts:
        for r1 in R11:
            for r2 in R11:
                P1 = "au::QuantityPoint<%s, %s>" % (U1, r1)
                P2 = "au::QuantityPoint<%s, %s>" % (U2, r2)
                stm = ['vf_b("conv", std::is_convertible<%s, %s>::value);' % (P1, P2),
                       'vf_b("ctor", std::is_constructible<%s, %s>::value);' % (P2, P1)]
                recs.append((rid, stm))
                meta[rid] = {"kind": "p", "name": name, "r1": r1, "r2": r2, "qexp": policy(r1, r2, k),
                             "same_origin": same_origin}
                rid += 1
                # overload resolution in its own record, so that a hard error is attributed to it alone
                recs.append((rid, ['vf_b("pick", c06::Picks<%s, %s>::value);' % (P1, P2),
                                   'vf_b("conv", std::is_convertible<%s, %s>::value);' % (P1, P2)]))
                meta[rid] = {"kind": "pp", "name": name, "r1": r1, "r2": r2}
                rid += 1
    ncells = len(recs)
    evals = 0
    both = set()
    more_permissive = set()
    for cfg in cfgs:
        res, failed = psx.run_dump(cfg, recs, os.path.join(run.wd, cfg.name), "c06", PREAMBLE,
                                   flags=cflags(cfg), chunk=max(40, len(recs) // (core.NCPU * 3) + 1))
        for r, diag in failed.items():
            m = meta[r]
            desc = ("%s:%s:%s->%s" % (m.get("k", m.get("name")), m.get("ukind", "pt"), m["r1"], m["r2"]))
            if m["kind"] == "pp":
                desc = "overload-resolution:" + desc
            key = "C06:hard-error:%s:%s" % (m["kind"], desc)
            run.violation(key, "%s: asking whether the conversion %s is implicit is a hard error: %s" % (cfg, desc, diag),
                          run.write_replay(key, {"kind": "program", "cell": {k: v for k, v in m.items() if k != "vals"},
                                                 "config": str(cfg), "stmts": recs[r][1], "diag": diag}))
        for r, o in res.items():
            m = meta[r]
            evals += 1
            if m["kind"] == "q":
                desc = "k=%s:%s:%s->%s" % (m["k"], m["ukind"], m["r1"], m["r2"])
                for f in ("conv", "ctor", "asg", "pick"):
                    if o[f] != m["exp"]:
                        key = "C06:policy:%s:%s" % (f, desc)
                        run.violation(key, "%s: %s says %s but the documented predicate is %s for %s" % (cfg, f, o[f], m["exp"], desc),
                                      run.write_replay(key, {"kind": "program", "config": str(cfg), "observed": o, "stmts": recs[r][1]}))
                if not o["common"]:
                    run.violation("C06:common-type-missing:%s" % desc, "%s: std::common_type missing for same-dimension pair %s" % (cfg, desc))
                if "bad" in o:
                    evals += o["n"]
                    if o["bad"]:
                        run.violation("C06:value:%s:x=%d" % (desc, o["first"]),
                                      "%s: permitted conversion %s is not x*k for x=%d (%d bad of %d)" % (cfg, desc, o["first"], o["bad"], o["n"]))
                both.add((desc, o["conv"]))
            elif m["kind"] == "pp":
                desc = "%s:%s->%s" % (m["name"], m["r1"], m["r2"])
                if o["pick"] != o["conv"]:
                    run.violation("C06:point-pick:%s" % desc, "%s: overload resolution and is_convertible disagree for point conversion %s: %s" % (cfg, desc, o))
            else:
                desc = "%s:%s->%s" % (m["name"], m["r1"], m["r2"])
                if o["conv"] != o["ctor"]:
                    run.violation("C06:point-inconsistent:%s" % desc, "%s: is_convertible/is_constructible disagree for %s: %s" % (cfg, desc, o))
                if m["same_origin"] and o["conv"] != m["qexp"]:
                    run.violation("C06:point-policy:%s" % desc, "%s: equal-origin point conversion %s is %s but the quantity predicate is %s" % (cfg, desc, o["conv"], m["qexp"]))
                if not m["same_origin"] and o["conv"] and not m["qexp"]:
                    more_permissive.add(desc)   # recorded, not judged: the statement defines no predicate for points
    # ---- unit-only .as/.in and mixed-unit operators: accept/reject probes
    probes, pmeta = [], {}
    pid = 0
    for (kname, k) in grid:
        U1 = src_unit(k)
        for r in R11:
            exp = policy(r, r, k)
            for form in ("(void)q.as(au::Meters{});", "(void)q.in(au::Meters{});", "(void)q.as(au::meters);"):
                code = "auto q = au::make_quantity<%s>(static_cast<%s>(1)); %s" % (U1, r, form)
                probes.append(core.Probe(pid, code, "accept" if exp else "reject"))
                pmeta[pid] = "unit-only %s k=%s rep=%s" % (form.split(".")[1].split("(")[0], kname, r)
                pid += 1
    rp = [("int16_t", "int32_t"), ("int32_t", "int16_t"), ("int32_t", "int64_t"), ("int64_t", "int32_t"),
          ("uint16_t", "uint32_t"), ("uint32_t", "uint64_t"), ("uint64_t", "uint32_t"), ("int32_t", "int32_t"),
          ("uint64_t", "uint64_t"), ("int8_t", "int8_t"), ("uint8_t", "int32_t"), ("int32_t", "double"),
          ("float", "int64_t"), ("float", "double"), ("int64_t", "uint64_t"), ("uint32_t", "int32_t")]
    if tier == "thorough":
        rp = [(a, b) for a in R11 for b in R11]
    for (kname, k) in grid:
        U1 = src_unit(k)
        if model.mag_is_rational(k):
            fr = model.mag_fraction(k) if k else Fr(1)
            n, dd = fr.numerator, fr.denominator
        else:
            n = dd = None
        for (r1, r2) in rp:
            c = core.common_rep(r1, r2)
            if c in F3:
                exp = True
            elif n is None:
                exp = False
            else:
                exp = all(x == 1 or 2147 * x <= tmax(c) for x in (n, dd))
            for op in ("==", "<", "+", "-"):
                code = "auto a = au::make_quantity<%s>(static_cast<%s>(1)); auto b = au::meters(static_cast<%s>(1)); (void)(a %s b); (void)(b %s a);" % (U1, r1, r2, op, op)
                probes.append(core.Probe(pid, code, "accept" if exp else "reject"))
                pmeta[pid] = "mixed %s k=%s reps=%s,%s" % (op, kname, r1, r2)
                pid += 1
    nacc = nrej = 0
    for cfg in cfgs:
        res, srcs = core.run_probes(cfg, probes, os.path.join(run.wd, "probes_" + cfg.name), "c06p", PREAMBLE, flags=cflags(cfg))
        for p in probes:
            v, diag = res[p.pid]
            evals += 1
            nacc += v == "accept"
            nrej += v == "reject"
            if v != p.expect:
                key = "C06:%s:%s" % ("unexpected-" + v, pmeta[p.pid])
                run.violation(key, "%s: `%s` is %sed but the documented predicate says %s (%s)" % (cfg, p.code, v, p.expect, diag),
                              run.write_replay(key, {"kind": "program", "config": str(cfg), "code": p.code, "expected": p.expect, "observed": v, "diag": diag}))
    descs = {}
    for d_, v in both:
        descs.setdefault(d_.split(":", 1)[0], set()).add(v)
    nontriv = sum(1 for v in descs.values() if len(v) == 2)
    run.cov.update({
        "evaluations": evals, "programs": (ncells + len(probes)) * len(cfgs),
        "cells": ncells, "probes": len(probes), "probe_accepts": nacc, "probe_rejects": nrej,
        "ratios": [g[0] for g in grid], "configs": [str(c) for c in cfgs],
        "distinct_nontrivial": nontriv,
        "point_cells_more_permissive_than_difference_type": len(more_permissive),
        "rule": "cells = (R1,R2) in 11x11 arithmetic reps x unit ratio k from a grid straddling every rep's 2147-threshold and maximum "
                "(plus reciprocals, rationals, pi, sqrt2, factors no rep can hold) x {Quantity, QuantityPoint with equal/different origins}; "
                "each cell evaluates is_convertible/is_constructible/is_assignable/overload pick/common_type in a TU that must compile (totality); "
                "unit-only .as/.in and mixed-unit ==,<,+,- are accept/reject probes; permitted integral cells convert every |x|<=2147 both reps hold. "
                "distinct_nontrivial = number of ratios k for which both a permitted and a forbidden (R1,R2) cell were observed.",
        "exhaustive": True, "exhaustive_note": "the stated finite grid is enumerated completely; ratios outside the grid are not covered",
        "samples": [{"cell": "k=%s %s->%s" % (meta[r]["k"], meta[r]["r1"], meta[r]["r2"]), "expected_implicit": meta[r]["exp"]}
                    for r in list(range(0, ncells, max(1, ncells // 6)))[:6] if meta[r]["kind"] == "q"],
    })
    run.assumptions += ["documented predicate transcribed in policy(): floating target, or integral source and integer k with 2147*k <= max(R2), or k == 1 between integral reps",
                        "for QuantityPoint only totality, agreement with the Quantity predicate for equal origins and 'never more permissive than the difference type' are judged"]


def replay(path):
    import json
    r = json.load(open(path))
    wd = os.path.join(core.BUILD, "C06", "replay")
    os.makedirs(wd, exist_ok=True)
    cfg = [c for c in core.CFG6 if str(c) == r.get("config")]
    cfg = cfg[0] if cfg else core.GXX14
    if "code" in r:
        p = core.Probe(0, r["code"], r["expected"])
        res, _ = core.run_probes(cfg, [p], wd, "rp", PREAMBLE, flags=cflags(cfg))
        v = res[0][0]
        print("observed:", v, "expected:", r["expected"])
        if v != r["expected"]:
            print("VIOLATION property=C06 replay=%s" % path)
            return 1
        return 0
    res, failed = psx.run_dump(cfg, [(0, r["stmts"])], wd, "rp", PREAMBLE, flags=cflags(cfg))
    print("observed:", res.get(0), "failed:", failed)
    if failed or (r.get("observed") and res.get(0) == r["observed"]):
        print("VIOLATION property=C06 replay=%s" % path)
        return 1
    return 0
