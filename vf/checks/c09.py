"""C09 — QuantityPoint obeys exact affine semantics (bounded exhaustive sweeps + negative probes)."""
import json
import os
from fractions import Fraction as Fr

from .. import c09_sweep as S
from .. import core, model
from ..sweep34 import cflags

LEVEL = "exploration"

GROUP_TEXT = {("conv", "ci"): "coerce_in<T>/coerce_as<T>/in<T>/as<T> (one of the explicit-rep point conversions)",
              ("conv", "maker"): "in<T>/as<T> with the target unit named by its QuantityPointMaker",
              ("pair", "cmp"): "a comparison of two points", ("pair", "sub"): "point - point", ("pair", "ss"): "<=> of two points",
              ("pair", "kind"): "point - point yielding a Quantity", ("shift", "shift"): "point +- quantity",
              ("shift", "kind"): "point +- quantity yielding a QuantityPoint", ("shift", "compound"): "p += q / p -= q with q of the point's own Diff type"}
JUDGED_BY_PY = {"conversion", "cmp-exact", "spaceship-exact", "point-difference", "point-shift"}


def _key(it, v):
    if it.kind == "conv":
        return "C09:%s:%s:%s:x=%s" % (v["kind"], v["op"], it.desc(), v["x1"])
    if it.kind == "pair":
        return "C09:%s:%s:%s:order=%d:x1=%s:x2=%s" % (v["kind"], v["op"], it.desc(), v["order"], v["x1"], v["x2"])
    return "C09:%s:%s:%s:xp=%s:xq=%s" % (v["kind"], v["op"], it.desc(), v["x1"], v["x2"])


def _what(it, v, build):
    if it.kind == "conv":
        return ("%s: %s_pt(%s{%s}).%s -> %s as %s gives %s, exact affine map gives %s [%s]"
                % (v["kind"], it.u1.name, it.r1, v["x1"], v["op"], it.u2.name, it.r2, v["got"], v["want"], build))
    if it.kind == "pair":
        a, b = "%s_pt(%s{%s})" % (it.u1.name, it.r1, v["x1"]), "%s_pt(%s{%s})" % (it.u2.name, it.r2, v["x2"])
        if v["order"] == 1:
            a, b = b, a
        return "%s: %s %s %s gives %s, exact positions require %s [%s]" % (v["kind"], a, v["op"], b, v["got"], v["want"], build)
    return ("%s: %s with p = %s_pt(%s{%s}), q = %s(%s{%s}) gives %s, exact %s [%s]"
            % (v["kind"], v["op"], it.u1.name, it.r1, v["x1"], it.u2.name, it.r2, v["x2"], v["got"], v["want"], build))


def _report(run, cfg, build, flags, by_id, viols):
    n = 0
    for v in viols:
        it = by_id[v["inst"]]
        if v["kind"] in JUDGED_BY_PY:
            exp = S.py_expect(it, v)
            if exp is not None and exp != v["want"]:
                raise core.InfraError("C09 oracle routes disagree (C++ __int128 vs Python Fractions) on %s %s: Python expects %s"
                                      % (it.desc(), v, exp))
        key = _key(it, v)
        what = _what(it, v, build)
        rp = None
        if run.match_known(key) is None:
            rp = run.write_replay(key, {"kind": "value", "config": str(cfg), "flags": list(flags), "what": what,
                                        "observed": v, "instance": it.rec(), "ops": it.ops[cfg.name]})
        run.violation(key, what, rp)
        n += 1
    return n


def _negative(run, cfgs, tier):
    cases = S.negative_probes(tier)
    ev, nrej, nacc = 0, 0, 0
    for cfg in cfgs:
        ps = [core.Probe(pid, code, exp) for (pid, code, exp) in cases]
        res, _ = core.run_probes(cfg, ps, os.path.join(run.wd, "neg_" + cfg.name), "c09n", S.NEG_PREAMBLE, flags=cflags(cfg))
        for p in ps:
            v, diag = res[p.pid]
            ev += 1
            if p.expect == "accept":
                nacc += v == "accept"
                if v != "accept":
                    raise core.InfraError("C09 twin probe `%s` does not compile under %s (%s): the paired rejection would be vacuous"
                                          % (p.code, cfg, diag))
            else:
                nrej += v == "reject"
                if v != "reject":
                    key = "C09:compiles:%s" % p.pid
                    run.violation(key, "%s: `%s` compiles although it has no affine meaning" % (cfg, p.code),
                                  run.write_replay(key, {"kind": "probe", "config": str(cfg), "code": p.code,
                                                         "expected": "reject", "observed": v}))
    return ev, nrej, nacc, len(cases)


def _selftest(run, ro, units):
    """Perturb the ORACLE (not Au): an affine offset that is off by one unit must be noticed."""
    u = {x.name: x for x in units}
    it = S.Conv(0, u["celsius"], "int64_t", u["milli_kelvins"], "int64_t", ro["disp"][("celsius", "milli_kelvins")]["disp"])
    it.kd += 1
    it.ops[core.GXX14.name] = {"ci": True, "pol": False, "ctor": False, "maker": True}
    it.iv = [(-5, 5)]
    stats, viols = S.build_and_run(run.wd, core.GXX14, "selftest", [it], [], nsplit=1)
    if not any(v["kind"] == "conversion" for v in viols):
        raise core.InfraError("C09 selftest: a perturbed oracle was not noticed")
    return len(viols)


def check(run):
    tier = run.tier
    quick = tier == "quick"
    units, qunits = S.point_units(tier), S.quantity_units(tier)
    core6 = {u.name for u in S.point_units("quick")}
    is_core = lambda it: it.u1.name in core6 and (it.kind == "shift" or it.u2.name in core6)
    every = lambda it: True
    # (config, flags, build name, [(instance kind, filter)]) — the first build sweeps everything; the C++20 /
    # UBSan builds concentrate on the two-operand instances (<=>) and the core units' conversions
    if quick:
        sweeps = [(core.GXX14, [], "g++-14", [("conv", every), ("pair", every), ("shift", every)]),
                  (core.CLANG20, S.UBSAN, "clang-20-ubsan", [("pair", every), ("shift", every)])]
    else:
        sweeps = [(core.GXX14, [], "g++-14", [("conv", every), ("pair", every), ("shift", every)]),
                  (core.CLANG20, S.UBSAN, "clang-20-ubsan", [("pair", every), ("shift", every), ("conv", is_core)]),
                  (core.GXX20, [], "g++-20", [("pair", is_core)])]
    phases = {}
    ro = S.readouts(os.path.join(run.wd, "readout"), core.GXX14, units, qunits)
    phases["readout"] = round(run.elapsed(), 1)
    if getattr(run, "selftest", False):
        run.cov["selftest_perturbed_oracle_mismatches"] = _selftest(run, ro, units)
    # the displacement between two origins must be exactly o2 - o1
    for (a, b), o in sorted(ro["disp"].items()):
        ua = [u for u in units if u.name == a][0]
        ub = [u for u in units if u.name == b][0]
        got = Fr(0) if o["disp"]["zero"] else S.frac_of(o["disp"])
        if got != ub.o - ua.o:
            key = "C09:origin-displacement:U1=%s:U2=%s" % (a, b)
            run.violation(key, "origin_displacement(%s, %s) is %s K, exact origin difference is %s K" % (a, b, got, ub.o - ua.o))
    # the statement only asks for the exact displacement, not for the unit it is expressed in: a difference that is not
    # expressed in the common point unit is counted and its value is not judged by this harness
    sub_not_in_cpu = sum(1 for o in ro["cpu"].values() if o["sub_mag"] != o["mag"])
    insts = S.build_instances(tier, units, qunits,
                              {"disp": {k: v["disp"] for k, v in ro["disp"].items()}, "cpu": ro["cpu"], "shift": ro["shift"]})
    by_id = {it.id: it for it in insts}
    cpu_origin_not_min = 0
    for (a, b), o in ro["cpu"].items():
        oc = Fr(0) if o["origin"]["zero"] else S.frac_of(o["origin"])
        m = min(u.o for u in units if u.name in (a, b))
        cpu_origin_not_min += oc != m
    mism, nacc, nrej = [], 0, 0
    neg_cfgs = core.CORNERS if quick else core.CFG6
    t0 = run.elapsed()
    neg_ev, neg_rej, neg_acc, neg_cases = _negative(run, neg_cfgs, tier)
    phases["negative_probes"] = round(run.elapsed() - t0, 1)
    t0 = run.elapsed()
    n_refused = 0
    for cfg, _, _, parts in sweeps:
        m, a, r, refused = S.run_domain_probes(run.wd, cfg, [it for it in insts if any(it.kind == k and f(it) for k, f in parts)])
        mism += m
        nacc += a
        nrej += r
        for it, g, code, diag in refused:
            key = "C09:does-not-compile:%s:%s:%s:%s" % (it.kind, g, it.desc(), cfg.name)
            what = ("%s: %s on %s does not compile although nothing in the computation is outside the implicit-conversion policy or "
                    "unrepresentable (%s)" % (cfg, GROUP_TEXT.get((it.kind, g), g), it.desc(), diag[:200]))
            rp = None
            if run.match_known(key) is None and n_refused < 60:
                rp = run.write_replay(key, {"kind": "accept-probe", "config": str(cfg), "code": code, "expected": "accept",
                                            "observed": "reject", "what": what})
            run.violation(key, what, rp)
            n_refused += 1
    phases["domain_probes"] = round(run.elapsed() - t0, 1)
    # an implicit point conversion that is declared (is_convertible) but ill-formed when actually performed says nothing
    # about C09 (which conversions are implicit is C06's subject, finding F13): counted, never judged here
    ill_formed_ctor = sorted({it.desc() for cfg, _, _, parts in sweeps for it in insts
                              if it.kind == "conv" and "ctor" in it.ops.get(cfg.name, {})
                              and not it.ops[cfg.name]["ctor"] and not it.ops[cfg.name]["noctor"]})
    big = 2 ** 15
    pbig = 2 ** 11
    pbig_core = 2 ** 11 if quick else 2 ** 15
    lat = 4 if quick else 1        # lattice exponent step: 2^j, 3*2^(j-1), 5*2^(j-2) (and /factors) for j = 2, 2+lat, ...
    for it in insts:
        if it.kind == "conv":
            it.prepare(big, 40, lat)
        elif it.kind == "pair":
            it.prepare(pbig_core if is_core(it) else pbig, 2, lat, full16=not quick and is_core(it))
        else:
            it.prepare(pbig_core if is_core(it) else pbig, 3, lat, full16=not quick and is_core(it))
    allstats, nviol, done, cut = [], 0, [], []
    rate = None      # measured wall seconds per unit of estimated work, for the deadline guard only
    for cfg, flags, build, parts in sweeps:
        for kind, flt in parts:
            tot = [it for it in insts if it.kind == kind and flt(it)]
            acc = [it for it in tot if it.swept(cfg)]
            if not acc:
                continue
            if len(acc) < {"conv": 0.5, "pair": 0.35, "shift": 0.5}[kind] * len(tot) and not n_refused:
                raise core.InfraError("vacuity guard: only %d of %d %s instances are in-domain under %s (e.g. %s)"
                                      % (len(acc), len(tot), kind, cfg, mism[:2]))
            work = sum(it.weight() + 300000 for it in acc) * (1.6 if cfg.is_clang else 1.0)
            need = rate * work * 1.3 if rate else 300
            if run.time_left() < need + 60:
                cut.append("%s:%s" % (build, kind))
                continue
            t0 = run.elapsed()
            stats, viols = S.build_and_run(run.wd, cfg, "%s_%s" % (build, kind), acc, flags, nsplit=core.NCPU * 2,
                                           timeout=max(300, min(3000, run.time_left())))
            rate = max(rate or 0, (run.elapsed() - t0) / work)
            phases["sweep %s %s" % (build, kind)] = round(run.elapsed() - t0, 1)
            trapped = any(v["kind"] == "trap" for v in viols)
            if len(stats) != len(acc) and not trapped:
                raise core.InfraError("C09: %d instances swept but %d reported" % (len(acc), len(stats)))
            nviol += _report(run, cfg, build, flags, by_id, viols)
            vac = [s for s in stats if s["judged"] == 0]
            if len(vac) > 0.3 * len(stats) and stats:
                raise core.InfraError("vacuity guard: %d of %d swept %s instances have no value inside the precondition (e.g. %s)"
                                      % (len(vac), len(stats), kind, by_id[vac[0]["inst"]].desc()))
            allstats += [dict(s, build=build) for s in stats]
            if build not in done:
                done.append(build)
    if not done:
        raise core.InfraError("deadline reached before any sweep configuration ran")
    first = [s for s in allstats if s["build"] == done[0]]
    nontriv = 0
    for s in first:
        skipped = s["skip_x"] + s["skip_mid"] + s["skip_scale"] + s["skip_inexact"] + s["skip_result"] + s["skip_sign"]
        if s["type"] == "pair":
            nontriv += bool(s["lt"] and s["eq"] and s["gt"])
        else:
            nontriv += bool(s["judged"] and skipped)
    tot = lambda k: sum(s[k] for s in allstats)
    swept_by_kind = {k: sum(1 for s in first if s["type"] == k) for k in ("conv", "pair", "shift")}
    run.cov.update({
        "evaluations": tot("judged") + neg_ev,
        "library_operations_compared": tot("ops"),
        "values_generated": tot("gen"),
        "excluded_source_value_not_representable_in_intermediate_rep": tot("skip_x"),
        "excluded_intermediate_displacement_not_representable": tot("skip_mid"),
        "excluded_final_rescaling_product_not_representable": tot("skip_scale"),
        "excluded_true_result_not_an_integer": tot("skip_inexact"),
        "excluded_true_result_out_of_range": tot("skip_result"),
        "float_comparisons_inside_tolerance_band_not_judged": tot("band"),
        "excluded_negative_operand_against_unsigned_common_rep": tot("skip_sign"),
        "compound_assignment_evaluations": tot("compound"),
        "operations_not_compiling_although_nothing_is_outside_policy": n_refused,
        "point_differences_not_expressed_in_common_point_unit_not_judged": sub_not_in_cpu,
        "same_unit_pair_instances": sum(1 for it in insts if it.kind == "pair" and it.u1.name == it.u2.name),
        "narrow_rep_pair_and_shift_instances": sum(1 for it in insts if it.kind != "conv" and not S.isf(it.c) and core.BITS[it.c] < 32),
        "lattice_exponent_step": lat,
        "ubsan_reports": tot("ubsan"),
        "instances_candidates": {k: sum(1 for it in insts if it.kind == k) for k in ("conv", "pair", "shift")},
        "instances_statically_outside_statement": sum(1 for it in insts if it.static_out),
        "instances_statically_outside_statement_reasons": {r: sum(1 for it in insts if it.static_out == r)
                                                           for r in sorted({it.static_out for it in insts if it.static_out})},
        "instances_swept_first_build": swept_by_kind,
        "instances_without_any_judged_value": sum(1 for s in first if s["judged"] == 0),
        "implicit_ctor_declared_but_ill_formed_not_judged": ill_formed_ctor[:10],
        "conv_instances_with_implicit_ctor_swept": sum(1 for it in insts if it.kind == "conv" and it.ops.get(sweeps[0][0].name, {}).get("ctor")),
        "conv_instances_with_policy_checked_in_as": sum(1 for it in insts if it.kind == "conv" and it.ops.get(sweeps[0][0].name, {}).get("pol")),
        "pair_instances_with_spaceship": sum(1 for it in insts if it.kind == "pair" and any(o.get("ss") for o in it.ops.values())),
        "units": [u.name for u in units], "quantity_units": [u.name for u in qunits], "reps": S.REPS,
        "readout_failures": ro["failed"][:8],
        "common_point_unit_origin_differs_from_smallest_origin": cpu_origin_not_min,
        "domain_probes_accept": nacc, "domain_probes_reject": nrej,
        "domain_mismatch_count": len(mism), "domain_mismatch": mism[:10],
        "negative_probe_cases": neg_cases, "negative_probes_rejected": neg_rej, "negative_twins_accepted": neg_acc,
        "negative_probe_configs": [str(c) for c in neg_cfgs],
        "phase_wall_seconds": phases,
        "sweep_builds": done, "sweep_builds_cut_by_deadline": cut,
        "sweep_build_instance_kinds": {b: [k + ("" if f is every else " (six core units only)") for k, f in parts]
                                       for (_, _, b, parts) in sweeps},
        "window_radius_conversions": big, "window_radius_point_pairs": pbig, "window_radius_point_pairs_core_units": pbig_core,
        "distinct_nontrivial": nontriv,
        "raw_violation_records": nviol,
        "rule": "conv instance = ordered pair of distinct point units x (source rep, target rep) from {int32,int64,uint32,uint64,float,double,"
                "long double} (+ 8/16-bit pairs, every value of those): every integer stored value within +-2^15 of 0, of the target's "
                "origin and of absolute zero, +-40 windows at the rep limits, at every overflow threshold of the modelled computation and "
                "of other plausible orders of it, and the enumerated lattice {2^j, 3*2^(j-1), 5*2^(j-2)} / {1, KX, KX*N} +-1 (floating "
                "source reps: also value+1/4, +1/3); coerce_in/coerce_as/in<T>/as<T> with the target named by a unit or by its point maker "
                "and, where they compile, the implicit constructor and the policy-checked in/as are compared with the exact affine map. "
                "pair instance = unordered unit pair INCLUDING the same unit twice (non-template friend operators) x ordered rep pair "
                "incl. sub-int reps: window + lattice values x (small alphabet + the other operand's values nearest the same position), six "
                "comparisons, <=> and p-p in both argument orders. shift instance = point unit x quantity unit x rep pair: p+q, q+p, "
                "p-q and, when q has the point's own Diff type, p+=q / p-=q. Every operation whose documented computation stays inside "
                "the implicit-conversion policy MUST compile (violation otherwise) and p-p must be a Quantity, p+-q a QuantityPoint. "
                "Negative probes: each rejected program has an accepted twin. non-trivial = conv/shift instance with both judged and "
                "excluded values, pair instance on which <, == and > all occurred.",
        "exhaustive": not cut,
        "exhaustive_note": "exhaustive over the stated windows of every in-domain instance; values outside the windows are not covered",
        "samples": [{"type": s["type"], "instance": by_id[s["inst"]].desc(), "values": s["gen"], "judged": s["judged"],
                     "excluded": s["gen"] - s["judged"]} for s in first[:: max(1, len(first) // 7)]][:8],
    })
    run.assumptions += [
        "modelled intermediate of p.in<NewRep>(u) (quantity_point.hh): x and the origin displacement (value and unit read out of "
        "the implementation, size judged against the exact origin difference) are cast to IntermediateRep = common_type<Rep,NewRep> "
        "(made signed when NewRep is signed), both are scaled by integers to the common unit of the source unit and the displacement "
        "unit, subtracted there (t), then t is multiplied by N and divided by D (t*N/D = result) in the same rep and cast to NewRep. "
        "Signed/integral: exactness is demanded only when x, x*KX, t, t*N and the integer result are all representable; unsigned "
        "intermediate rep: only t, t*N and the result (modular arithmetic is exact then). Everything else is counted and NOT executed",
        "excluded_final_rescaling_product_* counts values whose result and displaced intermediate fit but whose t*N product does not: "
        "the statement's wording does not exclude them, executing them would be signed overflow (UB) in the check itself",
        "floating computation rep: |result - exact| <= 8 ulp of that rep at max(|x*KX|, |KD|, |t|) in result units (+1 ulp of a "
        "narrower floating target, +1 for an integral target, values within that band of the target limits excluded)",
        "comparisons / p-p / p+-q: demanded when x_i, x_i*A_i and x_i*A_i+B_i are representable in the common rep, where A_i, B_i map "
        "operand i into the implementation's common point unit (scale read out, origin = the model's smallest origin); a difference / "
        "shifted point is judged when the exact value is representable in the rep the library returns (std::common_type of the operand "
        "reps, which is NOT promoted for two equal sub-int reps). For equal sub-int reps every step of the documented computation is a "
        "ring operation in int followed by a narrowing to the rep and the policy bounds every factor by max/2147, so no int overflow can "
        "occur and the precondition above is sufficient",
        "an operation must compile when the model finds nothing the statement lets the library refuse: integral common rep C -> each "
        "factor of p.as(common point unit) (operand unit -> common unit with the displacement unit, displacement unit -> that, that -> "
        "common point unit) is 1 or satisfies 2147*K <= max(C), and the displacement (read out) fits C; explicit-rep conversions -> the "
        "two factors of the displacement subtraction. Policy-checked in(u)/as(u) and implicit construction are observed, not demanded",
        "a negative signed operand compared with an operand of an unsigned common rep is counted separately and not judged (the library "
        "converts to the unsigned common rep first; the statement's comparison clause has no representability proviso)",
        "x86-64 LP64, g++ 12 / clang 14; UBSan (-fsanitize=undefined) observes the clang build",
    ]


def replay(path):
    r = json.load(open(path))
    cfg = [c for c in core.CFG6 if str(c) == r.get("config")]
    cfg = cfg[0] if cfg else core.GXX14
    wd = os.path.join(core.BUILD, "C09", "replay")
    os.makedirs(wd, exist_ok=True)
    if r.get("kind") == "accept-probe":
        p = core.Probe(0, r["code"], "accept")
        res, _ = core.run_probes(cfg, [p], wd, "rp", S.PREAMBLE + S.KIND_PREAMBLE, flags=cflags(cfg))
        print("observed:", res[0][0], res[0][1][:200])
        if res[0][0] != "accept":
            print("VIOLATION property=C09 replay=%s" % path)
            return 1
        return 0
    if r.get("kind") == "probe":
        p = core.Probe(0, r["code"], "reject")
        res, _ = core.run_probes(cfg, [p], wd, "rp", S.NEG_PREAMBLE, flags=cflags(cfg))
        print("observed:", res[0][0])
        if res[0][0] != "reject":
            print("VIOLATION property=C09 replay=%s" % path)
            return 1
        return 0
    i, o = r["instance"], r["observed"]
    mk = lambda u: S.PU(u[0], u[1], Fr(u[2]), Fr(u[3]))
    u1, u2 = mk(i["u1"]), mk(i["u2"])
    tier_units = S.point_units("thorough")
    ro = S.readouts(os.path.join(wd, "readout"), core.GXX14, [u for u in tier_units if u.name in (u1.name, u2.name)] or [u1],
                    [q for q in S.quantity_units("thorough") if q.name == u2.name])
    if i["type"] == "conv":
        it = S.Conv(0, u1, i["r1"], u2, i["r2"], ro["disp"][(u1.name, u2.name)]["disp"])
    elif i["type"] == "pair":
        k = (u1.name, u2.name) if (u1.name, u2.name) in ro["cpu"] else (u2.name, u1.name)
        it = S.Pair(0, u1, i["r1"], u2, i["r2"], ro["cpu"][k])
    else:
        it = S.Shift(0, u1, i["r1"], u2, i["r2"], ro["shift"][(u1.name, u2.name)])
    it.ops[cfg.name] = r["ops"]

    def iv(s):
        try:
            x = int(s)
        except ValueError:
            x = int(float(s) // 1)
        return [(x, x)]
    if it.kind == "conv":
        it.iv = iv(o["x1"])
    elif it.kind == "pair":
        it.w = [iv(o["x1"]), iv(o["x2"])]
        it.f = [iv(o["x1"]), iv(o["x2"])]
    else:
        it.w, it.f = iv(o["x1"]), iv(o["x2"])
    stats, viols = S.build_and_run(wd, cfg, "rp", [it], r.get("flags", []), nsplit=1)
    hit = [v for v in viols if (v["kind"], v["op"], v["order"], v["x1"], v["x2"]) == (o["kind"], o["op"], o["order"], o["x1"], o["x2"])]
    for h in hit:
        print("reproduced:", json.dumps(h))
    if hit:
        print("VIOLATION property=C09 replay=%s" % path)
        return 1
    print("not reproduced on the current tree: %s %s" % (it.desc(), o))
    return 0
