"""C05 — rep-changing conversions (as<T>/coerce_as<T>/in<T>/coerce_in<T>/rep_cast<T>) and the <T> forms
of will_conversion_overflow / will_conversion_truncate / is_conversion_lossy are sound.

Bounded exhaustive value sweeps over all 11x11 ordered rep pairs x a 30-factor grid (+ unit shapes) against the
compositional stage oracle of harness/c05_oracle.hh (no random sampling, no solver)."""
import json
import os
import time

from .. import core
from .. import c05_model as m
from .. import c05_sweep as sw
from ..core import BITS, tmax, tmin
from ..sweep34 import cflags, target_expr

LEVEL = "exploration"
SOFT_THOROUGH_BUDGET = 1500.0   # seconds; the caller's --deadline is respected as well
SHOW = 3                        # violation lines printed per (instance, kind) and binary


def _sname(t):
    return t.replace(" ", "_")


def _key(v):
    x = v["x"]
    if "nan" in x:
        x = "%s/%s" % (x, v["xbits"])
    k = "C05:%s:S=%s:T=%s:N=%s:D=%s%s:x=%s" % (v["kind"], _sname(v["S"]), _sname(v["T"]), v["N"], v["D"],
                                                (":u=%s" % v["u"]) if v.get("u") else "", x)
    if m.category(v["S"], v["T"]) == "fp-int" and "y" in v:
        y = v.get("yint") or v["y"]
        if "nan" in y:
            y = "nan"
        k += ":y=%s" % y
    return k


def _what(v, builds):
    lib = v["lib"]
    s = "%s: %s -> %s (common %s), factor %s/%s%s, x=%s" % (v["kind"], v["S"], v["T"], v["C"], v["N"], v["D"],
                                                            (" [%s]" % v["u"]) if v.get("u") else "", v["x"])
    if v.get("xbits"):
        s += " [bits %s]" % v["xbits"]
    s += "; library <T> checkers: truncate=%d overflow=%d lossy=%d" % (lib["trunc"], lib["ovf"], lib["lossy"])
    if "stages" in v:
        s += "; oracle stages %s exact=%s" % (json.dumps(v["stages"], sort_keys=True), v.get("exact", ""))
    if "y" in v:
        s += "; stage-2 value y=%s%s" % (v["y"], (" (= %s)" % v["yint"]) if v.get("yint") else "")
    for k in ("why", "form", "expect", "got"):
        if v.get(k):
            s += "; %s=%s" % (k, v[k])
    return s + " [%s]" % ", ".join(sorted(builds))


CHECKERS = ("will_conversion_overflow", "will_conversion_truncate", "is_conversion_lossy")


def _head(s, t, n, d, u):
    label, src, tgt = m.SHAPES[u][:3]
    return ("using S = %s; using T = %s; using C = %s; using Tg = %s; auto q = au::make_quantity<%s>(static_cast<S>(1)); "
            % (s, t, m.common(s, t), tgt or target_expr(n, d), src)), src


def _conv_code(s, t, n, d, u):
    h, src = _head(s, t, n, d, u)
    code = h + ("(void)q.coerce_in<T>(Tg{}); (void)q.coerce_as<T>(Tg{}); (void)q.in<T>(Tg{}); (void)q.as<T>(Tg{}); "
                "(void)au::make_quantity<%s>(static_cast<C>(1)).coerce_in(Tg{});" % src)
    if n == 1 and d == 1:
        code += " (void)au::rep_cast<T>(q);"
    return code


def _chk_code(s, t, n, d, u, which=CHECKERS):
    return _head(s, t, n, d, u)[0] + " ".join("(void)au::%s<T>(q, Tg{});" % w for w in which)


def _domain(run, cfg, cands):
    """Two compile domains, observed separately: the conversion forms and the three <T> checkers.
    -> (dom, mism, problems): dom = instances where both compile; mism = conversion compiles although the
    documented structure predicts a rejection (recorded, swept); problems = [(kind, inst, diag, code)]:
    'conversion-no-compile' (predicted accept, rejected: the domain shrank) and 'checker-no-compile'
    (the conversion compiles, a <T> checker does not)."""
    wd = os.path.join(run.wd, "dom")
    fl = cflags(cfg)
    pred = [m.predicted_domain(*c[:4]) for c in cands]
    pr = [core.Probe(i, _conv_code(*c), "accept" if pred[i] else "reject") for i, c in enumerate(cands)]
    pc = [core.Probe(i, _chk_code(*c), "accept") for i, c in enumerate(cands) if pred[i]]
    pz = [core.Probe(i, "auto z = au::rep_cast<%s>(au::ZERO); static_assert(std::is_same<decltype(z), au::Zero>::value, \"\");" % t,
                     "accept") for i, t in enumerate(core.R11)]
    (res, _), (resc, _), (resz, _) = core.pmap(lambda a: core.run_probes(cfg, a[0], wd, a[1], flags=fl),
                                               [(pr, "conv"), (pc, "chk"), (pz, "zero")], workers=3)
    conv_ok = [i for i in range(len(cands)) if res[i][0] == "accept"]
    grew = [i for i in conv_ok if not pred[i]]
    if grew:
        r2, _ = core.run_probes(cfg, [core.Probe(i, _chk_code(*cands[i]), "accept") for i in grew], wd, "chk2", flags=fl)
        resc.update(r2)
    problems, mism = [], []
    for p in pr:
        v, diag = res[p.pid]
        if p.expect == "accept" and v != "accept":
            problems.append(("conversion-no-compile", cands[p.pid], diag, p.code))
        elif v != p.expect:
            s, t, n, d, u = cands[p.pid]
            mism.append({"S": s, "T": t, "N": str(n), "D": str(d), "predicted": p.expect, "observed": v})
    bad = [i for i in conv_ok if resc[i][0] != "accept"]
    if bad:
        singles = [core.Probe(k, _chk_code(*cands[i], which=(w,)), "accept", {"i": i, "w": w})
                   for k, (i, w) in enumerate((i, w) for i in bad for w in CHECKERS)]
        r3, _ = core.run_probes(cfg, singles, wd, "chk1", flags=fl)
        named = set()
        for p in singles:
            if r3[p.pid][0] != "accept":
                problems.append(("checker-no-compile", cands[p.meta["i"]], "%s<T>: %s" % (p.meta["w"], r3[p.pid][1]), p.code))
                named.add(p.meta["i"])
        for i in bad:
            if i not in named:
                problems.append(("checker-no-compile", cands[i], "together: %s" % resc[i][1], _chk_code(*cands[i])))
    for p in pz:
        if resz[p.pid][0] != "accept":
            problems.append(("rep-cast-zero", ("-", core.R11[p.pid], 1, 1, 0), resz[p.pid][1], p.code))
    badset = set(bad)
    dom = [cands[i] for i in conv_ok if i not in badset]
    return dom, mism, problems


def _jobs(dom, tier):
    """One job per in-domain instance: exhaustive interval (8/16-bit), window alphabet (32/64-bit) or the
    structured floating alphabet."""
    r = 2 ** 10 if tier == "quick" else 2 ** 14
    lvl = 0 if tier == "quick" else 1
    insts, jobs = {}, []
    for iid, (s, t, n, d, u) in enumerate(dom):
        insts[iid] = (s, t, m.common(s, t), n, d, u)
        if m.is_fp(s):
            jobs.append((iid, "fpset", lvl, SHOW))
        elif BITS[s] <= 16:
            jobs.append((iid, "iv", [(tmin(s), tmax(s))], SHOW))
        else:
            jobs.append((iid, "iv", m.windows(s, t, n, d, r), SHOW))
    return insts, jobs, r


def _full_batches(dom):
    """Exhaustive 2^32 sweeps for the thorough tier, in priority order.  -> [(name, [(s,t,n,d)...])]"""
    ds = set(dom)
    ints = core.I8
    i32 = ("int32_t", "uint32_t")
    b = []
    b.append(("float (all 2^32 bit patterns) -> every integral target, factor 1",
              [("float", t, 1, 1, 0) for t in ints]))
    b.append(("int32_t/uint32_t (all 2^32 values) -> every integral target, factor 1",
              [(s, t, 1, 1, 0) for t in ints for s in i32]))
    b.append(("float (all 2^32 bit patterns) -> 32/64-bit integral targets, factors 2 and 1/2",
              [("float", t, n, d, 0) for (n, d) in ((2, 1), (1, 2))
               for t in ("int32_t", "uint32_t", "int64_t", "uint64_t")]))
    b.append(("int32_t/uint32_t (all 2^32 values) -> every floating target, factor 1",
              [(s, t, 1, 1, 0) for t in core.F3 for s in i32]))
    b.append(("int32_t/uint32_t (all 2^32 values) -> 8/32-bit integral targets, factors 3/2 and 2/3",
              [(s, t, n, d, 0) for (n, d) in ((3, 2), (2, 3)) for t in ("int8_t", "uint8_t", "int32_t", "uint32_t")
               for s in i32]))
    return [(name, [x for x in lst if x in ds]) for name, lst in b]


def _full_jobs(lst, base_id, chunks):
    insts, jobs = {}, []
    for k, (s, t, n, d, u) in enumerate(lst):
        iid = base_id + k
        insts[iid] = (s, t, m.common(s, t), n, d, u)
        step = 2 ** 32 // chunks
        for c in range(chunks):
            lo, hi = c * step, (c + 1) * step - 1 if c < chunks - 1 else 2 ** 32 - 1
            if s == "float":
                jobs.append((iid, "f32", (lo, hi), SHOW))
            else:
                jobs.append((iid, "iv", [(tmin(s) + lo, tmin(s) + hi)], SHOW))
    return insts, jobs


def _merge_stats(stats):
    """Sum the per-job 'S' lines per (build, instance)."""
    out = {}
    for s in stats:
        k = (s["build"], s["inst"])
        if k not in out:
            out[k] = dict(s)
            continue
        o = out[k]
        for f, v in s.items():
            if f in ("max_ulp", "max_fpscale"):
                o[f] = max(o[f], v)
            elif f == "nk":
                o[f] = [a + b for a, b in zip(o[f], v)]
            elif isinstance(v, int) and f != "inst":
                o[f] += v
            elif f in ("first_cleared", "first_lossy") and not o[f]:
                o[f] = v
    return list(out.values())


def _report(run, viols):
    """De-duplicate by key, confirm by the independent Python route, write replay artefacts, register."""
    bykey = {}
    for v in viols:
        k = _key(v)
        e = bykey.setdefault(k, (v, set()))
        e[1].add(v["build"])
    unknown = []
    for k in sorted(bykey):
        v, builds = bykey[k]
        ok, note = m.confirm(v)
        if not ok:
            raise core.InfraError("C05: the C++ stage oracle and the Python second route disagree on %s (%s): %s"
                                  % (k, note, json.dumps(v)))
        what = _what(v, builds) + " {second route: %s}" % note
        rp = run.write_replay(k, {"kind": "value", "instance": {"S": v["S"], "T": v["T"], "N": v["N"],
                                                                "D": v["D"], "u": v.get("u", "")},
                                  "value": v["xbits"] if m.is_fp(v["S"]) else v["x"],
                                  "violation_kind": v["kind"], "observed": v, "what": what,
                                  "how": "bin/check C05 --replay <this file>"})
        if run.match_known(k) is None:
            unknown.append((k, v, what, rp))
        else:
            run.violation(k, what, rp)
    # soundness rule 5: re-run not-yet-known violations from their artefacts before printing them
    for k, v, what, rp in unknown[:40]:
        if not _rerun(run, rp, quiet=True, rec={"instance": {"S": v["S"], "T": v["T"], "N": v["N"], "D": v["D"],
                                                             "u": v.get("u", "")},
                                                 "value": v["xbits"] if m.is_fp(v["S"]) else v["x"],
                                                 "violation_kind": v["kind"]}):
            raise core.InfraError("C05: violation %s did not reproduce from its replay artefact %s" % (k, rp))
    for k, v, what, rp in unknown:
        run.violation(k, what, rp)
    return len(bykey)


def _rerun(run, path, quiet=False, rec=None):
    r = rec if rec is not None else json.load(open(path))
    i = r["instance"]
    s, t, n, d = i["S"], i["T"], int(i["N"]), int(i["D"])
    u = [x[0] for x in m.SHAPES].index(i.get("u", ""))
    insts = {0: (s, t, m.common(s, t), n, d, u)}
    if m.is_fp(s):
        jobs = [(0, "fpbits", [r["value"]], 8)]
    else:
        x = int(r["value"])
        jobs = [(0, "iv", [(x, x)], 8)]
    hits = []
    tag = "rp_" + os.path.basename(path).replace(".json", "")
    for cfg, san, opt in ((core.GXX14, False, "-O0"), (core.CLANG14, True, "-O0")):
        st, vs = sw.build_and_run(run, cfg, "%s_%s" % (tag, cfg.name), insts, jobs, san, 1, opt=opt)
        hits += [dict(z, build=str(cfg)) for z in vs if z["kind"] == r["violation_kind"]]
    if not quiet:
        for h in hits:
            print("reproduced:", json.dumps(h))
    return bool(hits)


def check(run):
    tier = run.tier
    m.selfcheck()
    gcfg, ccfg = core.GXX14, core.CLANG14
    # quick: compile time dominates (0.1 s of template instantiation per instance and build) -> -O0
    gopt, copt = ("-O0", "-O0") if tier == "quick" else ("-O2", "-O2")
    # warm every PCH we will need while the domain probes run
    pch = [(gcfg, cflags(gcfg)), (gcfg, sw.flags_for(gcfg, False, gopt)), (ccfg, sw.flags_for(ccfg, True, copt))]
    core.pmap(lambda a: core.pch_dir(a[0], a[1]), pch)

    phases = {"pch": round(run.elapsed(), 1)}
    cands = m.instances()
    dom, mism, problems = _domain(run, gcfg, cands)
    phases["domain_probes"] = round(run.elapsed(), 1)
    # lost compile domain: a violation per instance (never a silent skip, never exit 2)
    for kind, (s_, t_, n_, d_, u_), diag, code in problems:
        key = "C05:%s:S=%s:T=%s:N=%d:D=%d%s" % (kind, _sname(s_), _sname(t_), n_, d_,
                                               (":u=%s" % m.SHAPES[u_][0]) if u_ else "")
        if kind == "checker-no-compile":
            key += ":fn=" + diag.split(":")[0]
        what = {"conversion-no-compile": "as<T>/coerce_as<T>/in<T>/coerce_in<T>%s no longer compile for %s -> %s, factor "
                                         "%d/%d although the factor is representable in the common type: %s",
                "checker-no-compile": "the rep-changing conversion%s compiles for %s -> %s, factor %d/%d but a <T> checker "
                                      "does not: %s",
                "rep-cast-zero": "rep_cast<T>(ZERO)%s%s is not available / not Zero for T=%s (%d/%d): %s"}[kind] % (
            " / rep_cast<T>" if (n_, d_) == (1, 1) and kind != "rep-cast-zero" else "", s_ if kind != "rep-cast-zero" else "",
            t_, n_, d_, diag)
        run.violation(key, what, run.write_replay(key, {"kind": "probe", "cfg": [gcfg.cxx, gcfg.std], "code": code,
                                                        "what": what}))
    lost = len({x[1] for x in problems})
    if len(dom) + lost < 0.8 * len(cands):   # instances lost to a reported violation are not "vacuous"
        raise core.InfraError("vacuity guard: only %d of %d (source,target,factor) instances compile"
                              % (len(dom), len(cands)))
    insts, jobs, radius = _jobs(dom, tier)
    stats, viols = [], []
    # The clang UBSan build (decides and observes) covers every instance in both tiers.  The second
    # compiler covers every instance in thorough and a stratified third in quick ((pair + factor) % 3
    # == 0: every rep pair keeps 4-5 factors, every factor about 40 pairs) -- per-instance template
    # instantiation (0.1 s per instance and build) dominates the quick tier's cost.
    pidx = {(s, t): i for i, (s, t) in enumerate((s, t) for s in core.R11 for t in core.R11)}
    fidx = {f: i for i, f in enumerate(m.FACTORS)}
    second = [j for j in jobs if tier == "thorough" or
              (pidx[insts[j[0]][0], insts[j[0]][1]] + fidx.get((insts[j[0]][3], insts[j[0]][4]), 0) + insts[j[0]][5]) % 3 == 0]
    for cfg, san, opt, name, jl in ((ccfg, True, copt, "clang++ %s ubsan" % copt, jobs),
                                    (gcfg, False, gopt, "g++ %s" % gopt, second)):
        s, v = sw.build_and_run(run, cfg, "main_" + cfg.name, insts, jl, san, ntu=4 * core.NCPU, opt=opt)
        stats += [dict(x, build=name) for x in s]
        viols += [dict(x, build=name) for x in v]
        phases["sweep " + name] = round(run.elapsed(), 1)

    full_done, full_skipped = [], []
    if tier == "thorough":
        base = 100000
        wave_n = max(2, core.NCPU // 4)   # instances per wave: 16 range chunks each
        for name, lst in _full_batches(dom):
            done, wall_prev, t_batch, why = 0, None, time.time(), None
            for w in range(0, len(lst), wave_n):
                wave = lst[w:w + wave_n]
                left = min(run.time_left(), SOFT_THOROUGH_BUDGET - run.elapsed())
                need = (wall_prev * len(wave) / wave_n * 1.25 + 20) if wall_prev else 150.0
                if left < need:
                    why = "deadline guard: %.0fs left, about %.0fs needed for the next wave" % (left, need)
                    break
                t0 = time.time()
                finsts, fjobs = _full_jobs(wave, base, chunks=16)
                base += len(wave)
                try:
                    s, v = sw.build_and_run(run, ccfg, "full%d" % base, finsts, fjobs, True, ntu=len(wave),
                                            opt="-O2", parts_per_bin=16, timeout=max(30, int(left - 15)),
                                            soft=True)
                except sw.SoftTimeout:
                    why = "deadline guard: wave stopped after %.0fs (results of the wave discarded)" % (
                        time.time() - t0)
                    break
                stats += [dict(x, build="clang++ -O2 ubsan full") for x in s]
                viols += [dict(x, build="clang++ -O2 ubsan full") for x in v]
                insts.update(finsts)
                wall_prev = (time.time() - t0) * wave_n / len(wave)
                done += len(wave)
            if done:
                full_done.append({"batch": name, "instances_completed": ["%s->%s x%s/%s" % x[:4] for x in lst[:done]],
                                  "values_each": 2 ** 32, "wall_s": round(time.time() - t_batch, 1)})
            if done < len(lst):
                full_skipped.append({"batch": name, "instances_not_run": ["%s->%s x%s/%s" % x[:4] for x in lst[done:]],
                                     "reason": why})
        phases["full sweeps"] = round(run.elapsed(), 1)

    stats = _merge_stats(stats)
    if any(s["evals"] == 0 for s in stats):
        raise core.InfraError("vacuous instances: %s" % [s for s in stats if s["evals"] == 0][:3])
    nkeys = _report(run, viols) + len(problems)

    main = [s for s in stats if s["build"].startswith("clang") and not s["build"].endswith("full")]
    # vacuity guard on cleared counts: an instance on which the oracle finds inputs whose every stage is
    # defined and exact, but on which the library clears nothing, was not checked at all (over-reporting
    # truncation is not forbidden by the statement, so this is "no verdict", not a violation)
    vac = [s for s in main if s["evals"] - s["must"] > 0 and s["cleared"] == 0]
    if vac and run.violations:
        # the library over-reports on these instances and that over-reporting is itself among the reported
        # violations (ovf-unjustified): the empty cleared set is explained, not vacuous
        run.cov["instances_clearing_nothing_with_reported_violations"] = len(vac)
    elif vac:
        raise core.InfraError("vacuity guard: %d instance(s) have oracle-defined inputs but the <T> checkers clear none, "
                              "e.g. %s" % (len(vac), [(v["S"], v["T"], v["N"], v["D"], v["evals"] - v["must"],
                                                      "trunc_unjustified=%d" % v["trunc_unjust"]) for v in vac[:4]]))
    cat = {}
    for s in main:
        c = cat.setdefault(m.category(s["S"], s["T"]), {"instances": 0, "values": 0, "lossy": 0, "cleared": 0,
                                                        "executed": 0, "oracle_must_be_lossy": 0})
        c["instances"] += 1
        for a, b in (("values", "evals"), ("lossy", "lossy"), ("cleared", "cleared"), ("executed", "exec"),
                     ("oracle_must_be_lossy", "must")):
            c[a] += s[b]
    ub = {"signed_overflow_UB_events": 0, "unsigned_wrap_events": 0, "non_arithmetic_events": 0, "instances": 0,
          "samples": []}
    for s in stats:
        if s["ub_chk_lossy"] or s["ub_chk_lossy_na"]:
            csig = m.is_fp(s["C"]) or core.is_signed(s["C"]) or BITS[s["C"]] < 32
            ub["signed_overflow_UB_events" if csig else "unsigned_wrap_events"] += s["ub_chk_lossy"]
            ub["non_arithmetic_events"] += s["ub_chk_lossy_na"]
            ub["instances"] += 1
            if csig and len(ub["samples"]) < 6:
                ub["samples"].append({k: s[k] for k in ("S", "T", "C", "N", "D", "ub_chk_lossy", "first_lossy")})
    kinds = {k: sum(s["nk"][i] for s in stats) for i, k in enumerate(sw.KINDS)}
    step = max(1, len(main) // 8)
    run.cov.update({
        "evaluations": sum(s["evals"] for s in stats),
        "distinct_nontrivial": sum(1 for s in main if 0 < s["lossy"] < s["evals"]),
        "instances_candidates": len(cands), "instances_in_domain": len(dom),
        "rep_pairs": len({(s, t) for (s, t, n, d, u) in dom}),
        "instances_shaped_units": sum(1 for x in dom if x[4]),
        "factors": ["%d/%d" % f for f in m.FACTORS], "unit_shapes": [x[0] for x in m.SHAPES[1:]],
        "domain_lost_count": len(problems),
        "domain_mismatch_count": len(mism), "domain_mismatch": mism[:20],
        "by_category": cat,
        "conversions_executed": sum(s["exec"] for s in stats),
        "dont_care": {
            "int_stage2_strictly_between_limit_and_next_integer": sum(s["band"] for s in main
                                                                       if m.category(s["S"], s["T"]) == "int-int"),
            "fp_target_error_between_2_and_3_ulp": sum(s["band_ulp"] for s in main),
            "fp_to_fp_nonfinite_inputs": sum(s["nonfinite"] for s in main
                                             if m.category(s["S"], s["T"]) == "fp-fp"),
            "fp_to_fp_scaling_overflow_within_8eps_of_max": sum(s["band"] for s in main
                                                                  if m.category(s["S"], s["T"]) == "fp-fp"),
            "int_to_fp_overflow_reported_for_value_at_or_above_max_minus_8eps": sum(
                s["band"] for s in main if m.category(s["S"], s["T"]) == "int-fp"),
            "fp_to_fp_cleared_between_max_and_max_plus_half_ulp": sum(s["band_stage3"] for s in main),
            "floating_stage2_between_4_and_64_ulp_from_exact": sum(s["band_fpscale"] for s in main),
            "unsigned_wrap_inside_checker_on_cleared_input": sum(s["ub_chk_cleared_wrap"] for s in stats),
        },
        "recorded_not_judged": {
            "truncation_reported_although_every_stage_exact": sum(s["trunc_unjust"] for s in main),
        },
        "max_ulp_error_floating_stage2_vs_exact": max([s["max_fpscale"] for s in stats] + [0.0]),
        "max_ulp_error_integral_source_to_floating_target": max([s["max_ulp"] for s in stats] + [0.0]),
        "ubsan_events_on_cleared_inputs": sum(s["ub_chk_cleared"] + s["ub_conv"] for s in stats),
        "ubsan_events_inside_checkers_on_lossy_inputs": ub,
        "window_radius_32_64bit": radius,
        "violation_events_by_kind": kinds, "distinct_violation_keys": nkeys,
        "full_2pow32_batches": full_done, "full_2pow32_batches_skipped": full_skipped,
        "builds": sorted({s["build"] for s in stats}), "phase_end_wall_s": phases,
        "instances_second_compiler": len(second),
        "samples": [{"S": s["S"], "T": s["T"], "C": s["C"], "factor": "%s/%s" % (s["N"], s["D"]),
                     "values": s["evals"], "lossy": s["lossy"], "cleared_and_executed": s["exec"],
                     "first_cleared_value": s["first_cleared"], "first_lossy_value": s["first_lossy"]}
                    for s in main[::step]][:10],
        "rule": ("instances = all 11x11 ordered (source rep S, target rep T) pairs x the 30-factor grid (key `factors`: "
                 "the 14 of round 1 plus factors that separate S, C and T -- 200, 40000, 65537, 3e9, 1e12, 2^63, the prime "
                 "2^64-59, their reciprocals, (2^31-1)/(2^31-3), 1250/381) for which the conversion compiles "
                 "(conversion forms and <T> checkers are compiled separately, each instance alone where it matters: a "
                 "conversion that stops compiling inside the predicted domain, or a checker that does not compile where "
                 "the conversion does, is a violation; source unit Meters, target Meters*D/N), plus the unit shapes of key "
                 "`unit_shapes` (QuantityMaker slots, prefixed/compound/named library units, identity and equivalent "
                 "targets, rep_cast on a non-Meters unit) on a stratified quarter of the rep pairs. Values: "
                 "every value of 8/16-bit sources; breakpoint-complete windows for 32/64-bit integral sources; "
                 "for floating sources a structured fully enumerated set (+-0, denormals, every power of two "
                 "with nextafter neighbours, exponent x mantissa patterns, eighths grid, integer/half-integer "
                 "neighbourhoods and +-64..256-ulp nextafter windows around every integral/floating limit (incl. "
                 "LDBL_MAX) and its pre-image under the factor, the inputs k*D for the 7 integers k around L/N of every "
                 "integral limit L (scaled value integer-valued next to L) and the 9 integers around L*D/N, +-inf, "
                 "quiet/signalling NaNs); thorough adds all 2^32 float "
                 "bit patterns / all 2^32 int32/uint32 values for the listed batches. Each value: the three <T> "
                 "checkers are called, the stage oracle decides which stages are defined, and only then the "
                 "five conversion forms are executed and compared. An instance is non-trivial when both a "
                 "lossy and a non-lossy verdict were observed on it."),
        "exhaustive": False,
        "exhaustive_note": ("complete sub-spaces: every 8/16-bit source value for every in-domain instance; the "
                            "structured floating alphabet; the 2^32 batches listed under full_2pow32_batches. "
                            "32/64-bit integral sources are covered on windows of the stated radius only, "
                            "double/long double sources on the structured alphabet only."),
    })
    run.assumptions += [
        "g++ 12 / clang 14 on x86-64 LP64 (float=binary32, double=binary64, long double=x87 80-bit) execute the "
        "compiled harness faithfully; ISO mode, no FMA contraction",
        "the independent common-type table (vf/c05_model.common) is cross-checked against the compiler's "
        "std::common_type by a static_assert in every sweep TU",
        "stage 2 in a floating common type takes the library's own same-rep conversion result as given (the "
        "statement's 'computed floating result'); it must be finite for a finite input, and it must be a scaling by "
        "the factor at all: more than 64 ulp(C) from the exact x*N/D (binary128 reference, second route Fraction) is a "
        "violation, (4, 64] ulp a counted don't-care band",
        "fp -> narrower fp: a cleared finite y with max(T) < |y| < max(T) + ulp/2 (a round-to-nearest cast gives "
        "max(T)) is a counted don't-care, neither judged nor executed",
        "unsigned wrap-around inside a <T> checker on an input it clears is counted, not judged (the statement "
        "constrains the conversion's steps; those are observed when the conversion itself runs); signed overflow, "
        "float-cast overflow and other UB events inside a checker on a cleared input remain violations",
        "QuantityPoint conversions are not swept: points have no <T> checkers and use a different intermediate rep "
        "(IntermediateRep/MakeSigned), so a Quantity-cleared input says nothing about them",
        "integral source -> floating target: 'exact' is demanded as |result - x*N/D| <= 2 ulp(T) (binary128 "
        "reference); (2,3] ulp is a counted don't-care band, > 3 ulp a violation",
        "floating target, non-finite input: the lossy verdict is a don't-care (the statement only names integral "
        "targets); the result must still be the value-preserving cast",
        "UBSan events inside the <T> checkers on inputs they then report as lossy are recorded as evidence "
        "(ubsan_events_inside_checkers_on_lossy_inputs) but are outside the statement, hence no violation",
    ]


def replay(path):
    run = core.Run("C05", "quick", LEVEL)
    run.wd = os.path.join(core.BUILD, "C05", "replay")
    os.makedirs(run.wd, exist_ok=True)
    r0 = json.load(open(path))
    if r0.get("kind") == "probe":
        cfg = core.Cfg(*r0["cfg"])
        res, _ = core.run_probes(cfg, [core.Probe(0, r0["code"], "accept")], run.wd, "rp", flags=cflags(cfg))
        if res[0][0] != "accept":
            print("reproduced: %s" % res[0][1])
            print("VIOLATION property=C05 replay=%s" % path)
            return 1
        print("not reproduced on the current tree: the probe compiles")
        return 0
    if _rerun(run, path):
        print("VIOLATION property=C05 replay=%s" % path)
        return 1
    r = json.load(open(path))
    print("not reproduced on the current tree: %s value=%s" % (json.dumps(r["instance"]), r["value"]))
    return 0
