"""C17 (std::chrono round trip) — alphabets, exact reference arithmetic and C++ emitters.

Nothing here includes or parses Au: the reference is (Rep, Period) taken literally from the
property text, Python Fractions / big ints, and `__int128` arithmetic in the generated harness.
"""
from fractions import Fraction as Fr
from math import gcd

from . import core, model

REPS = ["int32_t", "int64_t", "float", "double"]
FP = ("float", "double")
DIGITS = {"float": 24, "double": 53}
PERIODS = [(1, 10 ** 9), (1, 10 ** 6), (1, 1000), (1, 1), (60, 1), (3600, 1), (86400, 1), (1, 60),
           (1001, 30000), (1, 1024), (3, 7)]
NAMED = [("std::chrono::nanoseconds", (1, 10 ** 9)), ("std::chrono::microseconds", (1, 10 ** 6)),
         ("std::chrono::milliseconds", (1, 1000)), ("std::chrono::seconds", (1, 1)),
         ("std::chrono::minutes", (60, 1)), ("std::chrono::hours", (3600, 1))]
OPS = ["==", "!=", "<", "<=", ">", ">=", "+", "-"]


class Dur:
    """One std::chrono::duration type of the quantifier."""

    def __init__(self, rep, num, den, named=None):
        assert gcd(num, den) == 1
        self.rep, self.num, self.den, self.named = rep, num, den, named
        self.cpp = named or "std::chrono::duration<%s, std::ratio<%d, %d>>" % (rep, num, den)
        self.name = named or "duration<%s,ratio<%d,%d>>" % (rep, num, den)
        self.period = Fr(num, den)
        # the quantity the property calls "corresponding": seconds x Period, same rep
        self.cq_unit = "decltype(au::Seconds{} * au::mag<%d>() / au::mag<%d>())" % (num, den)
        self.cq = "au::Quantity<%s, %s>" % (self.cq_unit, rep)

    @property
    def is_fp(self):
        return self.rep in FP


def durations():
    return [Dur(r, n, d) for r in REPS for (n, d) in PERIODS]


def named_durations():
    # libstdc++: every named typedef has a 64-bit signed rep; observed (not assumed) in the dump
    return [Dur("int64_t", n, d, named=nm) for nm, (n, d) in NAMED]


TARGET_UNITS = [("Nano<Seconds>", "au::Nano<au::Seconds>", Fr(1, 10 ** 9)),
                ("Micro<Seconds>", "au::Micro<au::Seconds>", Fr(1, 10 ** 6)),
                ("Milli<Seconds>", "au::Milli<au::Seconds>", Fr(1, 1000)),
                ("Seconds", "au::Seconds", Fr(1)), ("Minutes", "au::Minutes", Fr(60)),
                ("Hours", "au::Hours", Fr(3600)), ("Days", "au::Days", Fr(86400)),
                ("Seconds*3/7", "decltype(au::Seconds{} * au::mag<3>() / au::mag<7>())", Fr(3, 7))]


def targets():
    return [("Quantity<%s,%s>" % (un, r), "au::Quantity<%s, %s>" % (uc, r), uf, r)
            for (un, uc, uf) in TARGET_UNITS for r in REPS]


# ------------------------------------------------------------------ documented policy (info only)
def policy_implicit(src_rep, k, dst_rep):
    """Au's documented implicit-conversion predicate for a same-dimension conversion by factor k."""
    if dst_rep in FP:
        return True
    if src_rep in FP:
        return False
    if k == 1:
        return True
    return k.denominator == 1 and 2147 * k.numerator <= core.tmax(dst_rep)


def common_period(p1, p2):
    """chrono's common_type period == gcd of the two rationals."""
    return Fr(gcd(p1.numerator * p2.denominator, p2.numerator * p1.denominator),
              p1.denominator * p2.denominator)


def pair_factors(a, b):
    g = common_period(a.period, b.period)
    k1, k2 = a.period / g, b.period / g
    assert k1.denominator == 1 and k2.denominator == 1
    return g, int(k1), int(k2)


def predicted_mixed_accept(a, b):
    c = core.common_rep(a.rep, b.rep)
    _, k1, k2 = pair_factors(a, b)
    return policy_implicit(c, Fr(k1), c) and policy_implicit(c, Fr(k2), c)


# ------------------------------------------------------------------ static dump records
def static_stmts(d, part):
    """part 'asq': what as_quantity(d) is; part 'acd': what as_chrono_duration(as_quantity(d)) is.
    (Separate records, so that one of them failing to compile cannot hide the other's read-out.)"""
    D = d.cpp
    P = "std::ratio<%d, %d>" % (d.num, d.den)
    out = []
    if part == "asq":
        out = ['vf_b("dur_rep_same", std::is_same<typename %s::rep, %s>::value);' % (D, d.rep),
               'vf_b("dur_period_same", std::is_same<typename %s::period, typename %s::type>::value);' % (D, P)]
    # the three value categories as_quantity can be called with (rvalue, lvalue, const lvalue)
    for tag, arg in (("rv", D), ("lv", D + " &"), ("cl", "const " + D + " &")):
        Q = "decltype(au::as_quantity(std::declval<%s>()))" % arg
        ACD = "decltype(au::as_chrono_duration(au::as_quantity(std::declval<%s>())))" % arg
        if part == "asq":
            out += [
                'vf_b("q_rep_same_%s", std::is_same<typename %s::Rep, %s>::value);' % (tag, Q, d.rep),
                'vf_kv("ratio_%s", vf::MagJson<decltype(au::unit_ratio(typename %s::Unit{}, au::seconds))>::get());' % (tag, Q),
                'vf_kv("u_%s", "{" + vf::unit_json<typename %s::Unit>() + "}");' % (tag, Q),
                'vf_b("back_implicit_%s", std::is_convertible<%s, %s>::value);' % (tag, Q, D)]
        else:
            out += [
                'vf_b("acd_period_same_%s", std::is_same<typename %s::period, typename %s::type>::value);' % (tag, ACD, P),
                'vf_b("acd_rep_same_%s", std::is_same<typename %s::rep, %s>::value);' % (tag, ACD, d.rep)]
    return out


def accept_stmts(d, tq):
    """(d): is_convertible<D, Q> against is_convertible<Quantity<s*Period, Rep>, Q>."""
    return ['vf_b("dur", std::is_convertible<%s, %s>::value);' % (d.cpp, tq),
            'vf_b("dur_lref", std::is_convertible<%s &, %s>::value);' % (d.cpp, tq),
            'vf_b("dur_clref", std::is_convertible<const %s &, %s>::value);' % (d.cpp, tq),
            'vf_b("qty", std::is_convertible<%s, %s>::value);' % (d.cq, tq)]


# ------------------------------------------------------------------ probes
def roundtrip_probe(d):
    D = d.cpp
    return ("%s d{1}; auto q = au::as_quantity(d); auto q2 = au::as_quantity(%s{1}); %s back = q; "
            "auto acd = au::as_chrono_duration(q); decltype(q) qi = d; "
            "(void)q.in(typename decltype(q)::Unit{}); (void)q2; (void)back; (void)acd; (void)qi;"
            % (D, D, D))


def mixed_probe(a, b, form):
    """form: 'dq' = duration op quantity, 'qd' = quantity op duration, 'qq' = both quantities,
    'acd' = the mixed sums/differences handed to as_chrono_duration (the comparison device)."""
    if form == "acd":
        return ("%s a{1}; %s b{1}; (void)au::as_chrono_duration(a + au::as_quantity(b)); "
                "(void)au::as_chrono_duration(au::as_quantity(a) + b); (void)au::as_chrono_duration(a - au::as_quantity(b)); "
                "(void)au::as_chrono_duration(au::as_quantity(a) - b);" % (a.cpp, b.cpp))
    x = "a" if form == "dq" else "au::as_quantity(a)"
    y = "b" if form == "qd" else "au::as_quantity(b)"
    ops = " ".join("(void)(%s %s %s);" % (x, op, y) for op in OPS)
    return "%s a{1}; %s b{1}; %s" % (a.cpp, b.cpp, ops)


# ------------------------------------------------------------------ run-time harness
HARNESS = r'''
#include "sweep.hh"
namespace c17 {
using vf::i128;
using vf::u128;

template <typename T> inline bool isnan_(T, std::false_type) { return false; }
template <typename T> inline bool isnan_(T x, std::true_type) { return x != x; }
template <typename T> inline bool same(T a, T b) {
    return a == b || (isnan_(a, std::is_floating_point<T>{}) && isnan_(b, std::is_floating_point<T>{}));
}
template <typename T> inline std::string vstr(T v, std::false_type) { return vf::int_str(v); }
template <typename T> inline std::string vstr(T v, std::true_type) {   // shortest exact decimal form
    char b[64]; std::snprintf(b, sizeof b, sizeof(T) == 4 ? "%.9g" : "%.17g", (double)v); return b;
}
template <typename T> inline std::string vstr(T v) { return vstr(v, std::is_floating_point<T>{}); }

// value <- enumerated item.  kind 0: integer value; kind 1: raw bit pattern of a floating rep
template <typename R> inline R from_int(i128 v) { return static_cast<R>(static_cast<long long>(v)); }
inline float from_bits(i128 v, float) { std::uint32_t u = (std::uint32_t)v; float f; std::memcpy(&f, &u, 4); return f; }
inline double from_bits(i128 v, double) { std::uint64_t u = (std::uint64_t)v; double f; std::memcpy(&f, &u, 8); return f; }
template <typename R> inline R from_bits(i128 v, R) { return static_cast<R>(static_cast<long long>(v)); }

struct Iv { int kind; i128 lo, hi; };

// ---- (a)+(b): as_quantity / round trip on one duration type ---------------------------------
template <typename D>
void roundtrip(int id, const Iv *iv, int niv) {
    typedef typename D::rep R;
    unsigned long long evals = 0, viol = 0, nans = 0;
    int shown[5] = {0, 0, 0, 0, 0};
    for (int k = 0; k < niv; ++k) {
        for (i128 v = iv[k].lo; v <= iv[k].hi; ++v) {
            const R x = iv[k].kind ? from_bits(v, R{}) : from_int<R>(v);
            const bool nan = isnan_(x, std::is_floating_point<R>{});
            nans += nan;
            const D d{x};
            const auto q = au::as_quantity(d);
            typedef typename std::remove_const<decltype(q)>::type Q;
            const auto qr = au::as_quantity(D{x});
            const D back = q;                                  // implicit conversion back
            const auto acd = au::as_chrono_duration(q);
            const Q qi = d;                                    // duration implicitly accepted
            ++evals;
            const char *kind = nullptr; int slot = 0; R got = R{};
            if (!same(q.in(typename Q::Unit{}), d.count())) { kind = "count"; slot = 0; got = q.in(typename Q::Unit{}); }
            else if (!same(qr.in(typename Q::Unit{}), d.count())) { kind = "count-rvalue"; slot = 1; got = qr.in(typename Q::Unit{}); }
            else if (!same(back.count(), d.count()) || (!nan && !(back == d))) { kind = "back-implicit"; slot = 2; got = back.count(); }
            else if (!same(acd.count(), d.count()) || (!nan && !(acd == d))) { kind = "back-as_chrono_duration"; slot = 3; got = acd.count(); }
            else if (!same(qi.in(typename Q::Unit{}), d.count())) { kind = "implicit-accept-value"; slot = 4; got = qi.in(typename Q::Unit{}); }
            if (kind) {
                ++viol;
                if (shown[slot]++ < 3)
                    std::printf("V {\"inst\":%d,\"kind\":\"%s\",\"x\":\"%s\",\"got\":\"%s\",\"ik\":%d,\"iv\":\"%s\"}\n", id, kind,
                                vstr(x).c_str(), vstr(got).c_str(), iv[k].kind, vf::int_str(v).c_str());
            }
        }
    }
    std::printf("S {\"inst\":%d,\"evals\":%llu,\"viol\":%llu,\"nans\":%llu}\n", id, evals, viol, nans);
    std::fflush(stdout);
}

// ---- (c): mixed duration/quantity operations on one ordered pair -----------------------------
template <typename C, bool FP = std::is_floating_point<C>::value>
struct Dom {   // integral common rep: "chrono does not overflow" == exact value fits C
    static bool ok(i128 v) {
        return v >= (i128)std::numeric_limits<C>::min() && v <= (i128)std::numeric_limits<C>::max();
    }
};
template <typename C>
struct Dom<C, true> {   // floating common rep: exact value representable (odd part below 2^digits)
    static bool ok(i128 v) {
        u128 a = v < 0 ? (u128)(-v) : (u128)v;
        if (a == 0) return true;
        while (!(a & 1)) a >>= 1;
        return a < ((u128)1 << std::numeric_limits<C>::digits);
    }
};

template <typename R> struct Bnd;
template <> struct Bnd<std::int32_t> { static const long long *v() { static const long long a[9] = {INT32_MIN, INT32_MIN + 1, -(1LL << 30), -1, 0, 1, 1LL << 30, INT32_MAX - 1, INT32_MAX}; return a; } };
template <> struct Bnd<std::int64_t> { static const long long *v() { static const long long a[9] = {INT64_MIN, INT64_MIN + 1, -(1LL << 62), -1, 0, 1, 1LL << 62, INT64_MAX - 1, INT64_MAX}; return a; } };
template <> struct Bnd<float> { static const long long *v() { static const long long a[9] = {-(1LL << 24) - 2, -(1LL << 24), -(1LL << 24) + 1, -1, 0, 1, (1LL << 24) - 1, 1LL << 24, (1LL << 24) + 2}; return a; } };
template <> struct Bnd<double> { static const long long *v() { static const long long a[9] = {-(1LL << 53) - 2, -(1LL << 53), -(1LL << 53) + 1, -1, 0, 1, (1LL << 53) - 1, 1LL << 53, (1LL << 53) + 2}; return a; } };

struct MStats {
    unsigned long long evals = 0, ops = 0, skip_conv = 0, skip_arith = 0, band = 0, band_disagree = 0,
                       oracle_disagree = 0, viol = 0, qq_disagree = 0;
    unsigned seen_true = 0, seen_false = 0;
    int shown[16] = {0};
};

template <typename D1, typename D2, long long K1, long long K2>
struct Mixed {
    typedef typename D1::rep R1;
    typedef typename D2::rep R2;
    typedef typename std::common_type<R1, R2>::type C;
    static constexpr bool CFP = std::is_floating_point<C>::value;

    static void emit(int id, MStats &st, int op, const char *form, long long a, long long b,
                     const std::string &au, const std::string &chrono, const std::string &exact) {
        static const char *OPS[8] = {"==", "!=", "<", "<=", ">", ">=", "+", "-"};
        ++st.viol;
        const int slot = op * 2 + (form[0] == 'q');
        if (st.shown[slot]++ < 2)
            std::printf("V {\"inst\":%d,\"kind\":\"mixed\",\"op\":\"%s\",\"form\":\"%s\",\"a\":\"%lld\",\"b\":\"%lld\","
                        "\"au\":\"%s\",\"chrono\":\"%s\",\"exact\":\"%s\"}\n", id, OPS[op], form, a, b,
                        au.c_str(), chrono.c_str(), exact.c_str());
    }

    template <typename A, typename X>
    static void arith(int id, MStats &st, int op, const char *form, long long a, long long b, bool band,
                      A au_result, X xc, i128 exact) {
        const auto acd = au::as_chrono_duration(au_result);
        const bool agree = (acd == xc) || (isnan_(acd.count(), std::is_floating_point<C>{}) &&
                                           isnan_(xc.count(), std::is_floating_point<C>{}));
        ++st.ops;
        if (band) { st.band_disagree += !agree; return; }
        if (!agree) emit(id, st, op, form, a, b, vstr(acd.count()), vstr(xc.count()), vf::int_str(exact));
    }

    static void visit(int id, MStats &st, long long a, long long b) {
        const D1 d1{static_cast<R1>(a)};
        const D2 d2{static_cast<R2>(b)};
        const i128 v1 = (i128)a * K1, v2 = (i128)b * K2;
        ++st.evals;
        bool band = false;
        if (!(Dom<C>::ok(v1) && Dom<C>::ok(v2))) {
            if (!CFP) { ++st.skip_conv; return; }   // chrono's common_type conversion overflows: not executed
            band = true;                             // chrono's own conversion rounds: don't-care band
        }
        st.band += band;
        const auto q1 = au::as_quantity(d1);
        const auto q2 = au::as_quantity(d2);
        const bool e[6] = {v1 == v2, v1 != v2, v1 < v2, v1 <= v2, v1 > v2, v1 >= v2};
        const bool x[6] = {d1 == d2, d1 != d2, d1 < d2, d1 <= d2, d1 > d2, d1 >= d2};
        const bool l[6] = {d1 == q2, d1 != q2, d1 < q2, d1 <= q2, d1 > q2, d1 >= q2};
        const bool r[6] = {q1 == d2, q1 != d2, q1 < d2, q1 <= d2, q1 > d2, q1 >= d2};
        const bool m[6] = {q1 == q2, q1 != q2, q1 < q2, q1 <= q2, q1 > q2, q1 >= q2};   // info only (C08's business)
        for (int k = 0; k < 6; ++k) {
            st.ops += 2;
            if (band) { st.band_disagree += (l[k] != x[k]) + (r[k] != x[k]); continue; }
            if (x[k] != e[k]) ++st.oracle_disagree;
            st.qq_disagree += (m[k] != x[k]);
            (x[k] ? st.seen_true : st.seen_false) |= 1u << k;
            if (l[k] != x[k]) emit(id, st, k, "dq", a, b, l[k] ? "true" : "false", x[k] ? "true" : "false", e[k] ? "true" : "false");
            if (r[k] != x[k]) emit(id, st, k, "qd", a, b, r[k] ? "true" : "false", x[k] ? "true" : "false", e[k] ? "true" : "false");
        }
        const i128 s = v1 + v2, t = v1 - v2;
        for (int k = 6; k < 8; ++k) {
            const i128 ex = k == 6 ? s : t;
            bool bnd = band;
            if (!Dom<C>::ok(ex)) {
                if (!CFP) { ++st.skip_arith; continue; }
                bnd = true;
            }
            if (k == 6) {
                const auto xc = d1 + d2;
                if (!bnd && !((i128)xc.count() == ex)) ++st.oracle_disagree;
                arith(id, st, k, "dq", a, b, bnd, d1 + q2, xc, ex);
                arith(id, st, k, "qd", a, b, bnd, q1 + d2, xc, ex);
            } else {
                const auto xc = d1 - d2;
                if (!bnd && !((i128)xc.count() == ex)) ++st.oracle_disagree;
                arith(id, st, k, "dq", a, b, bnd, d1 - q2, xc, ex);
                arith(id, st, k, "qd", a, b, bnd, q1 - d2, xc, ex);
            }
        }
    }

    static void run(int id, int lo8, int hi8, long long one_a, long long one_b, bool single) {
        MStats st;
        if (single) {
            visit(id, st, one_a, one_b);
        } else {
            for (int a = lo8; a <= hi8; ++a)
                for (int b = lo8; b <= hi8; ++b) visit(id, st, a, b);
            for (int i = 0; i < 9; ++i)
                for (int j = 0; j < 9; ++j) visit(id, st, Bnd<R1>::v()[i], Bnd<R2>::v()[j]);
        }
        typedef decltype(std::declval<D1>() + std::declval<D2>()) XC;
        typedef decltype(au::as_chrono_duration(std::declval<D1>() + au::as_quantity(std::declval<D2>()))) AC;
        (void)sizeof(au::as_quantity(std::declval<D1>()) + au::as_quantity(std::declval<D2>()));
        (void)sizeof(au::as_quantity(std::declval<D1>()) - au::as_quantity(std::declval<D2>()));
        std::printf("S {\"inst\":%d,\"evals\":%llu,\"ops\":%llu,\"skip_conv\":%llu,\"skip_arith\":%llu,\"band\":%llu,"
                    "\"band_disagree\":%llu,\"oracle_disagree\":%llu,\"viol\":%llu,\"seen_true\":%u,\"seen_false\":%u,"
                    "\"sum_type_same\":%d,\"qq_disagree\":%llu}\n", id, st.evals, st.ops, st.skip_conv, st.skip_arith, st.band,
                    st.band_disagree, st.oracle_disagree, st.viol, st.seen_true, st.seen_false,
                    (int)std::is_same<XC, AC>::value, st.qq_disagree);
        std::fflush(stdout);
    }
};
}  // namespace c17
'''


def lit128(v):
    if -2 ** 63 < v < 2 ** 63:
        return "(vf::i128)%dLL" % v
    if v == -2 ** 63:
        return "(-(vf::i128)9223372036854775807LL-1)"
    if 0 <= v < 2 ** 64:
        return "(vf::i128)%dULL" % v
    raise ValueError(v)


def emit_roundtrip_tu(path, insts, ivs):
    """insts: [(id, Dur)]; ivs: id -> [(kind, lo, hi)]."""
    out = [HARNESS, "namespace {"]
    for i, d in insts:
        out.append("static const c17::Iv IV%d[] = {%s};" % (
            i, ", ".join("{%d, %s, %s}" % (k, lit128(a), lit128(b)) for k, a, b in ivs[i])))
    out += ["}", "int main(int argc, char **argv) {",
            "  int part = argc > 1 ? std::atoi(argv[1]) : 0, nparts = argc > 2 ? std::atoi(argv[2]) : 1, k = 0;"]
    for i, d in insts:
        out.append("  if (k++ %% nparts == part) c17::roundtrip<%s>(%d, IV%d, %d);" % (d.cpp, i, i, len(ivs[i])))
    out.append("  return 0; }")
    with open(path, "w") as f:
        f.write("\n".join(out) + "\n")


def emit_mixed_tu(path, insts, lo8=-128, hi8=127, single=None):
    """insts: [(id, Dur a, Dur b)]; single = (x, y) runs exactly one value pair (replay)."""
    out = [HARNESS, "int main() {"]
    for i, a, b in insts:
        _, k1, k2 = pair_factors(a, b)
        sa, sb = single if single else (0, 0)
        out.append("  c17::Mixed<%s, %s, %dLL, %dLL>::run(%d, %d, %d, %s, %s, %s);" % (
            a.cpp, b.cpp, k1, k2, i, lo8, hi8, ll(sa), ll(sb), "true" if single else "false"))
    out.append("  return 0; }")
    with open(path, "w") as f:
        f.write("\n".join(out) + "\n")


def ll(v):
    return "(-9223372036854775807LL-1)" if v == -2 ** 63 else "%dLL" % v


# ------------------------------------------------------------------ value alphabets for (a)/(b)
def float_bits(x, rep):
    import struct
    return struct.unpack("<I", struct.pack("<f", x))[0] if rep == "float" else \
        struct.unpack("<Q", struct.pack("<d", x))[0]


def roundtrip_intervals(rep, w, full32=False):
    """All 16-bit values placed in the rep + windows of radius w around 0, +-1, rep min / max.
    Integral reps: numeric windows.  Floating reps: numeric 16-bit values, then windows of w
    consecutive *bit patterns* (nextafter steps) around +-0, +-1, +-max (reaching inf and the first
    NaN patterns), the largest NaN patterns, and around 2^digits where integers stop being exact."""
    iv = [(0, -32768, 65535)]
    if rep in FP:
        bits = 32 if rep == "float" else 64
        if full32 and bits == 32:
            return iv + [(1, 0, 2 ** 32 - 1)]
        sign = 1 << (bits - 1)
        inf = float_bits(float("inf"), rep)
        pts = [0, float_bits(1.0, rep), inf, float_bits(float(2 ** DIGITS[rep]), rep),
               float_bits(0.5, rep), float_bits(65536.0, rep)]
        raw = []
        for p in pts:
            for s in (0, sign):
                raw.append((max(p - w, 0) + s, min(p + w, sign - 1) + s))
        raw.append((sign - 1 - w, sign - 1))            # top positive NaN payloads
        raw.append((2 * sign - 1 - w, 2 * sign - 1))    # top negative NaN payloads
        raw.sort()
        merged = []
        for a, b in raw:
            if merged and a <= merged[-1][1] + 1:
                merged[-1] = (merged[-1][0], max(merged[-1][1], b))
            else:
                merged.append((a, b))
        return iv + [(1, a, b) for a, b in merged]
    lo, hi = core.tmin(rep), core.tmax(rep)
    if full32 and rep == "int32_t":
        return [(0, lo, hi)]
    raw = sorted([(lo, lo + w), (hi - w, hi), (-w, w)] + [(-32768, 65535)])
    merged = []
    for a, b in raw:
        if merged and a <= merged[-1][1] + 1:
            merged[-1] = (merged[-1][0], max(merged[-1][1], b))
        else:
            merged.append((a, b))
    return [(0, a, b) for a, b in merged]


def expected_ratio_key(d):
    return model.mag_key(model.mag_ratio(d.num, d.den))
