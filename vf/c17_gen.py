"""C17 (std::chrono round trip) — alphabets, exact reference arithmetic and C++ emitters.

Nothing here includes or parses Au: the reference is (Rep, Period) taken literally from the
property text, Python Fractions / big ints, and `__int128` arithmetic in the generated harness.
"""
from fractions import Fraction as Fr
from math import gcd

from . import core, model

REPS = ["int32_t", "int64_t", "float", "double"]
FP = ("float", "double")
DIGITS = {"float": 24, "double": 53}
PERIODS = [(1, 10 ** 9), (1, 10 ** 6), (1, 1000), (1, 1), (60, 1), (3600, 1), (86400, 1), (1, 60),
           (1001, 30000), (1, 1024), (3, 7)]
# Periods that take part in (a)(b)(d) only (type-level records + round-trip sweep, not the pair sweep):
# numerators / denominators beyond 2^31 and 2^32, a large prime and a prime above 2^32 (compile-time
# factorisation), and non-reduced spellings (num, den, spelled num, spelled den): the duration type
# duration<Rep, ratio<2,4>> is distinct from duration<Rep, ratio<1,2>> but has period ratio<1,2>.
EXTRA_PERIODS = [(1, 10 ** 12), (1, 10 ** 18), (31556952000, 1), (10 ** 10, 3), (1, 1000003), (4294967311, 1),
                 (1, 2, 2, 4), (60, 1, 120, 2)]
NAMED = [("std::chrono::nanoseconds", (1, 10 ** 9)), ("std::chrono::microseconds", (1, 10 ** 6)),
         ("std::chrono::milliseconds", (1, 1000)), ("std::chrono::seconds", (1, 1)),
         ("std::chrono::minutes", (60, 1)), ("std::chrono::hours", (3600, 1))]
OPS = ["==", "!=", "<", "<=", ">", ">=", "+", "-"]


class Dur:
    """One std::chrono::duration type of the quantifier."""

    extra = False

    def __init__(self, rep, num, den, named=None, spell=None):
        assert gcd(num, den) == 1
        sn, sd = spell or (num, den)          # how the ratio is spelled in the type (may be non-reduced)
        assert Fr(sn, sd) == Fr(num, den)
        self.rep, self.num, self.den, self.named = rep, num, den, named
        self.ratio_cpp = "std::ratio<%dLL, %dLL>" % (sn, sd)
        self.cpp = named or "std::chrono::duration<%s, %s>" % (rep, self.ratio_cpp)
        self.name = named or "duration<%s,ratio<%d,%d>>" % (rep, sn, sd)
        self.period = Fr(num, den)
        # the quantity the property calls "corresponding": seconds x Period, same rep
        self.cq_unit = "decltype(au::Seconds{} * au::mag<%dULL>() / au::mag<%dULL>())" % (num, den)
        self.cq = "au::Quantity<%s, %s>" % (self.cq_unit, rep)

    @property
    def is_fp(self):
        return self.rep in FP


def durations():
    return [Dur(r, n, d) for r in REPS for (n, d) in PERIODS]


def extra_durations():
    """Static records + round trip only (never in the pair sweep)."""
    out = [Dur(r, p[0], p[1], spell=p[2:] or None) for r in REPS for p in EXTRA_PERIODS]
    for d in out:
        d.extra = True
    return out


def named_durations():
    # libstdc++: every named typedef has a 64-bit signed rep; observed (not assumed) in the dump
    return [Dur("int64_t", n, d, named=nm) for nm, (n, d) in NAMED]


TARGET_UNITS = [("Nano<Seconds>", "au::Nano<au::Seconds>", Fr(1, 10 ** 9)),
                ("Micro<Seconds>", "au::Micro<au::Seconds>", Fr(1, 10 ** 6)),
                ("Milli<Seconds>", "au::Milli<au::Seconds>", Fr(1, 1000)),
                ("Seconds", "au::Seconds", Fr(1)), ("Minutes", "au::Minutes", Fr(60)),
                ("Hours", "au::Hours", Fr(3600)), ("Days", "au::Days", Fr(86400)),
                ("Seconds*3/7", "decltype(au::Seconds{} * au::mag<3>() / au::mag<7>())", Fr(3, 7))]


# target reps beyond the four of the quantifier ("a quantity type" is unrestricted), on four of the units
TARGET_REPS_X = ["uint64_t", "int16_t", "uint8_t", "long double"]
TARGET_UNITS_X = ("Nano<Seconds>", "Seconds", "Hours", "Seconds*3/7")


def targets():
    """All targets of (d); ids are positions in this list."""
    return ([("Quantity<%s,%s>" % (un, r), "au::Quantity<%s, %s>" % (uc, r), uf, r)
             for (un, uc, uf) in TARGET_UNITS for r in REPS] +
            [("Quantity<%s,%s>" % (un, r), "au::Quantity<%s, %s>" % (uc, r), uf, r)
             for (un, uc, uf) in TARGET_UNITS if un in TARGET_UNITS_X for r in TARGET_REPS_X])


EXTRA_TARGET_UNITS = ("Nano<Seconds>", "Seconds", "Days")


def targets_for(d, extra):
    """Durations of EXTRA_PERIODS meet a reduced target set (3 units x {int32_t, int64_t, double} + uint64_t
    and long double seconds): what is new about them is the size of the factor, not the target."""
    T = targets()
    if not extra:
        return T
    keep = set("Quantity<%s,%s>" % (u, r) for u in EXTRA_TARGET_UNITS for r in ("int32_t", "int64_t", "double"))
    keep |= {"Quantity<Seconds,uint64_t>", "Quantity<Seconds,long double>"}
    return [t for t in T if t[0] in keep]


# ------------------------------------------------------------------ documented policy (info only)
def policy_implicit(src_rep, k, dst_rep):
    """Au's documented implicit-conversion predicate for a same-dimension conversion by factor k."""
    if dst_rep in FP or dst_rep == "long double":
        return True
    if src_rep in FP:
        return False
    if k == 1:
        return True
    return k.denominator == 1 and 2147 * k.numerator <= core.tmax(dst_rep)


def common_period(p1, p2):
    """chrono's common_type period == gcd of the two rationals."""
    return Fr(gcd(p1.numerator * p2.denominator, p2.numerator * p1.denominator),
              p1.denominator * p2.denominator)


def pair_factors(a, b):
    g = common_period(a.period, b.period)
    k1, k2 = a.period / g, b.period / g
    assert k1.denominator == 1 and k2.denominator == 1
    return g, int(k1), int(k2)


def predicted_mixed_accept(a, b):
    c = core.common_rep(a.rep, b.rep)
    _, k1, k2 = pair_factors(a, b)
    return policy_implicit(c, Fr(k1), c) and policy_implicit(c, Fr(k2), c)


# ------------------------------------------------------------------ static dump records
# value categories as_quantity / the implicit constructor can be handed: rvalue (T = D), lvalue (D&),
# const lvalue (const D&) and const rvalue (T = const D: std::move of a const object, a function
# returning const D) - the last one is the only use of CorrespondingQuantity<const T>
CATS = (("rv", "rvalue", "%s"), ("lv", "lvalue", "%s &"), ("cl", "const lvalue", "const %s &"),
        ("crv", "const rvalue", "const %s"))


def static_stmts(d, part):
    """part 'asq': what as_quantity(d) is; part 'acd': what as_chrono_duration(as_quantity(d)) is.
    (Separate records, so that one of them failing to compile cannot hide the other's read-out.)"""
    D = d.cpp
    P = "std::ratio<%dLL, %dLL>" % (d.num, d.den)     # the reduced ratio == D::period by [time.duration]
    out = []
    if part == "asq":
        out = ['vf_b("dur_rep_same", std::is_same<typename %s::rep, %s>::value);' % (D, d.rep),
               'vf_b("dur_period_same", std::is_same<typename %s::period, %s>::value && '
               'std::is_same<typename %s::type, %s>::value);' % (D, P, d.ratio_cpp, P)]
    for tag, _, pat in CATS:
        arg = pat % D
        Q = "decltype(au::as_quantity(std::declval<%s>()))" % arg
        ACD = "decltype(au::as_chrono_duration(au::as_quantity(std::declval<%s>())))" % arg
        if part == "asq":
            out += [
                'vf_b("q_rep_same_%s", std::is_same<typename %s::Rep, %s>::value);' % (tag, Q, d.rep),
                'vf_kv("ratio_%s", vf::MagJson<decltype(au::unit_ratio(typename %s::Unit{}, au::seconds))>::get());' % (tag, Q),
                'vf_kv("u_%s", "{" + vf::unit_json<typename %s::Unit>() + "}");' % (tag, Q),
                'vf_b("back_implicit_%s", std::is_convertible<%s, %s>::value);' % (tag, Q, D)]
        else:
            out += [
                'vf_b("acd_period_same_%s", std::is_same<typename %s::period, %s>::value);' % (tag, ACD, P),
                'vf_b("acd_rep_same_%s", std::is_same<typename %s::rep, %s>::value);' % (tag, ACD, d.rep)]
    return out


ACC_FORMS = (("dur", "rvalue", "%s"), ("dur_lref", "lvalue", "%s &"), ("dur_clref", "const lvalue", "const %s &"),
             ("dur_crv", "const rvalue", "const %s"))


def accept_stmts(d, tq):
    """(d): is_convertible<D, Q> against is_convertible<Quantity<s*Period, Rep>, Q>."""
    return ['vf_b("%s", std::is_convertible<%s, %s>::value);' % (k, pat % d.cpp, tq) for k, _, pat in ACC_FORMS] + \
           ['vf_b("qty", std::is_convertible<%s, %s>::value);' % (d.cq, tq)]


# ------------------------------------------------------------------ probes
def roundtrip_probe(d):
    D = d.cpp
    return ("%s d{1}; auto q = au::as_quantity(d); auto q2 = au::as_quantity(%s{1}); %s back = q; "
            "auto acd = au::as_chrono_duration(q); decltype(q) qi = d; "
            "const %s cd{1}; auto q3 = au::as_quantity(std::move(cd)); decltype(q) qc = std::move(cd); "
            "(void)q.in(typename decltype(q)::Unit{}); (void)q2; (void)back; (void)acd; (void)qi; (void)q3; (void)qc;"
            % (D, D, D, D))


def constexpr_probe(d):
    """Compile-time use of every piece of the round trip and of the mixed operators on one type (a
    static_assert that fails and a call that is not constexpr both reject the probe)."""
    D = d.cpp
    return ("constexpr %s d{1}; constexpr auto q = au::as_quantity(d); constexpr %s back = q; "
            "constexpr auto acd = au::as_chrono_duration(q); constexpr decltype(q) qi = d; "
            "static_assert(q.in(typename decltype(q)::Unit{}) == 1, \"\"); static_assert(back.count() == 1, \"\"); "
            "static_assert(acd.count() == 1, \"\"); static_assert(qi == q, \"\"); "
            "static_assert(q == d && d == q && !(q != d) && !(d != q), \"\"); "
            "static_assert(q <= d && d <= q && q >= d && d >= q && !(q < d) && !(d < q) && !(q > d) && !(d > q), \"\"); "
            "static_assert(au::as_chrono_duration(q + d).count() == 2 && au::as_chrono_duration(d + q).count() == 2, \"\"); "
            "static_assert(au::as_chrono_duration(q - d).count() == 0 && au::as_chrono_duration(d - q).count() == 0, \"\");"
            % (D, D))


def implicit_target_probe(d, tqs):
    """`Target t = d` and `Target t2 = as_quantity(d)` for targets whose is_convertible answers were true."""
    return "%s d{1}; " % d.cpp + " ".join(
        "{ %s t = d; %s t2 = au::as_quantity(d); (void)t; (void)t2; }" % (tq, tq) for tq in tqs)


def mixed_probe(a, b, form):
    """form: 'dq' = duration op quantity, 'qd' = quantity op duration, 'qq' = both quantities,
    'acd' = the mixed sums/differences handed to as_chrono_duration (the comparison device)."""
    if form == "acd":
        return ("%s a{1}; %s b{1}; (void)au::as_chrono_duration(a + au::as_quantity(b)); "
                "(void)au::as_chrono_duration(au::as_quantity(a) + b); (void)au::as_chrono_duration(a - au::as_quantity(b)); "
                "(void)au::as_chrono_duration(au::as_quantity(a) - b);" % (a.cpp, b.cpp))
    x = "a" if form == "dq" else "au::as_quantity(a)"
    y = "b" if form == "qd" else "au::as_quantity(b)"
    ops = " ".join("(void)(%s %s %s);" % (x, op, y) for op in OPS)
    return "%s a{1}; %s b{1}; %s" % (a.cpp, b.cpp, ops)


# ------------------------------------------------------------------ run-time harness
HARNESS = r'''
#include "sweep.hh"
#include <cmath>
#include <cstring>
#include <utility>
namespace c17 {
using vf::i128;
using vf::u128;

template <typename T> inline bool isnan_(T, std::false_type) { return false; }
template <typename T> inline bool isnan_(T x, std::true_type) { return x != x; }
template <typename T> inline bool isnan_(T x) { return isnan_(x, std::is_floating_point<T>{}); }
template <typename T> inline bool isinf_(T, std::false_type) { return false; }
template <typename T> inline bool isinf_(T x, std::true_type) { return x == std::numeric_limits<T>::infinity() || x == -std::numeric_limits<T>::infinity(); }
template <typename T> inline bool isinf_(T x) { return isinf_(x, std::is_floating_point<T>{}); }
// "unchanged count": the same object representation (so -0.0 -> +0.0 is a change); NaN stays NaN
template <typename T> inline bool same(T a, T b) {   // (x87 long double: 10 value bytes + 6 padding bytes)
    const size_t n = std::is_floating_point<T>::value && sizeof(T) == 16 ? 10 : sizeof(T);
    return std::memcmp(&a, &b, n) == 0 || (isnan_(a) && isnan_(b));
}
// "same answer": equal values (or both NaN)
template <typename T> inline bool equal(T a, T b) { return a == b || (isnan_(a) && isnan_(b)); }
template <typename T> inline std::string vstr(T v, std::false_type) { return vf::int_str(v); }
template <typename T> inline std::string vstr(T v, std::true_type) {   // shortest exact decimal form
    char b[64];
    if (sizeof(T) > 8) std::snprintf(b, sizeof b, "%.21Lg", (long double)v);
    else std::snprintf(b, sizeof b, sizeof(T) == 4 ? "%.9g" : "%.17g", (double)v);
    return b;
}
template <typename T> inline std::string vstr(T v) { return vstr(v, std::is_floating_point<T>{}); }

// value <- enumerated item.  kind 0: integer value; kind 1: raw bit pattern of a floating rep
template <typename R> inline R from_int(i128 v) { return static_cast<R>(static_cast<long long>(v)); }
inline float from_bits(i128 v, float) { std::uint32_t u = (std::uint32_t)v; float f; std::memcpy(&f, &u, 4); return f; }
inline double from_bits(i128 v, double) { std::uint64_t u = (std::uint64_t)v; double f; std::memcpy(&f, &u, 8); return f; }
template <typename R> inline R from_bits(i128 v, R) { return static_cast<R>(static_cast<long long>(v)); }

struct Iv { int kind; i128 lo, hi; };

// ---- (a)+(b): as_quantity / round trip on one duration type ---------------------------------
template <typename D>
void roundtrip(int id, const Iv *iv, int niv) {
    typedef typename D::rep R;
    unsigned long long evals = 0, viol = 0, nans = 0;
    int shown[7] = {0, 0, 0, 0, 0, 0, 0};
    for (int k = 0; k < niv; ++k) {
        for (i128 v = iv[k].lo; v <= iv[k].hi; ++v) {
            const R x = iv[k].kind ? from_bits(v, R{}) : from_int<R>(v);
            const bool nan = isnan_(x);
            nans += nan;
            const D d{x};
            const auto q = au::as_quantity(d);
            typedef typename std::remove_const<decltype(q)>::type Q;
            const auto qr = au::as_quantity(D{x});
            const D back = q;                                  // implicit conversion back
            const auto acd = au::as_chrono_duration(q);
            const Q qi = d;                                    // duration implicitly accepted
            const D cd{x};
            const auto qc = au::as_quantity(std::move(cd));    // const rvalue: T = const D
            const Q qic = std::move(cd);
            ++evals;
            const char *kind = nullptr; int slot = 0; R got = R{};
            if (!same(q.in(typename Q::Unit{}), d.count())) { kind = "count"; slot = 0; got = q.in(typename Q::Unit{}); }
            else if (!same(qr.in(typename Q::Unit{}), d.count())) { kind = "count-rvalue"; slot = 1; got = qr.in(typename Q::Unit{}); }
            else if (!same(back.count(), d.count()) || (!nan && !(back == d))) { kind = "back-implicit"; slot = 2; got = back.count(); }
            else if (!same(acd.count(), d.count()) || (!nan && !(acd == d))) { kind = "back-as_chrono_duration"; slot = 3; got = acd.count(); }
            else if (!same(qi.in(typename Q::Unit{}), d.count())) { kind = "implicit-accept-value"; slot = 4; got = qi.in(typename Q::Unit{}); }
            else if (!same(qc.in(typename Q::Unit{}), d.count())) { kind = "count-const-rvalue"; slot = 5; got = qc.in(typename Q::Unit{}); }
            else if (!same(qic.in(typename Q::Unit{}), d.count())) { kind = "implicit-accept-const-rvalue"; slot = 6; got = qic.in(typename Q::Unit{}); }
            if (kind) {
                ++viol;
                if (shown[slot]++ < 3)
                    std::printf("V {\"inst\":%d,\"kind\":\"%s\",\"x\":\"%s\",\"got\":\"%s\",\"ik\":%d,\"iv\":\"%s\"}\n", id, kind,
                                vstr(x).c_str(), vstr(got).c_str(), iv[k].kind, vf::int_str(v).c_str());
            }
        }
    }
    std::printf("S {\"inst\":%d,\"evals\":%llu,\"viol\":%llu,\"nans\":%llu}\n", id, evals, viol, nans);
    std::fflush(stdout);
}

// ---- (d) value: `Target t = d` against `Target t2 = as_quantity(d)` (and the exact value) -------
// N/Dn = Period / unit of the target.  Executed only where the conversion has no undefined
// behaviour: integral target <- integral source needs Dn == 1 and x*N inside the target's range
// (then t must also equal x*N exactly); a floating target takes every x.
template <typename T, bool FP = std::is_floating_point<T>::value>
struct Fits { static bool ok(i128 v) { return v >= (i128)std::numeric_limits<T>::min() && v <= (i128)std::numeric_limits<T>::max(); } };
template <typename T> struct Fits<T, true> { static bool ok(i128) { return true; } };

struct TgtRes { bool skipped, bad; std::string x, got, want; };
// the enumeration is ordinary code; only one(kind, v) is instantiated per (duration, target)
inline void implicit_target_loop(void (*one)(int, i128, bool, TgtRes &), int id, int tid, const Iv *iv, int niv) {
    unsigned long long evals = 0, viol = 0, skipped = 0;
    int shown = 0;
    TgtRes r;
    for (int k = 0; k < niv; ++k) {
        for (i128 v = iv[k].lo; v <= iv[k].hi; ++v) {
            one(iv[k].kind, v, false, r);
            if (r.skipped) { ++skipped; continue; }
            ++evals;
            if (!r.bad) continue;
            ++viol;
            if (shown++ < 3) {
                one(iv[k].kind, v, true, r);
                std::printf("V {\"inst\":%d,\"tgt\":%d,\"kind\":\"implicit-target-value\",\"x\":\"%s\",\"got\":\"%s\",\"want\":\"%s\",\"ik\":%d,\"iv\":\"%s\"}\n",
                            id, tid, r.x.c_str(), r.got.c_str(), r.want.c_str(), iv[k].kind, vf::int_str(v).c_str());
            }
        }
    }
    std::printf("S {\"inst\":%d,\"tgt\":%d,\"evals\":%llu,\"viol\":%llu,\"skipped\":%llu}\n", id, tid, evals, viol, skipped);
    std::fflush(stdout);
}
template <typename D, typename T, unsigned long long N, unsigned long long Dn>
struct ImplicitTarget {
    typedef typename D::rep R;
    typedef typename T::Rep TR;
    static void one(int kind, i128 v, bool describe, TgtRes &r) {
        constexpr bool RI = std::is_integral<R>::value, TI = std::is_integral<TR>::value;
        const R x = kind ? from_bits(v, R{}) : from_int<R>(v);
        r.skipped = true; r.bad = false;
        i128 exact = 0;
        if (TI) {
            if (!RI || Dn != 1) return;
            exact = (i128)x * (i128)N;
            if (!Fits<TR>::ok(exact)) return;
        }
        r.skipped = false;
        const D d{x};
        const T t = d;
        const T t2 = au::as_quantity(d);
        const TR a = t.in(typename T::Unit{}), b = t2.in(typename T::Unit{});
        r.bad = !same(a, b) || (TI && (i128)a != exact);
        if (describe) { r.x = vstr(x); r.got = vstr(a); r.want = TI && same(a, b) ? vf::int_str(exact) : vstr(b); }
    }
    static void run(int id, int tid, const Iv *iv, int niv) { implicit_target_loop(&one, id, tid, iv, niv); }
};

// ---- (c): mixed duration/quantity operations on one ordered pair -----------------------------
// Only Mixed<>::observe touches the implementation and chrono (one instantiation per ordered pair);
// the enumeration and all judging is ordinary non-template code on plain data (counts travel as
// long double, which holds every int64_t / float / double value exactly, NaN, inf and -0.0 included).
struct RepInfo { bool fp; int digits; i128 lo, hi; };   // [lo, hi]: where the rep holds every integer exactly
template <typename R, bool FP = std::is_floating_point<R>::value>
struct Lim {
    static RepInfo get() { RepInfo r = {false, std::numeric_limits<R>::digits, (i128)std::numeric_limits<R>::min(), (i128)std::numeric_limits<R>::max()}; return r; }
};
template <typename R>
struct Lim<R, true> {
    static RepInfo get() { RepInfo r = {true, std::numeric_limits<R>::digits, -((i128)1 << std::numeric_limits<R>::digits), (i128)1 << std::numeric_limits<R>::digits}; return r; }
};
inline bool odd_part_fits(i128 v, int digits) {
    u128 a = v < 0 ? (u128)(-v) : (u128)v;
    if (a == 0) return true;
    while (!(a & 1)) a >>= 1;
    return a < ((u128)1 << digits);
}
// integral common rep: "chrono does not overflow" == the exact value fits; floating: == it is representable
inline bool exact_ok(const RepInfo &c, i128 v) { return c.fp ? odd_part_fits(v, c.digits) : (v >= c.lo && v <= c.hi); }
// can an operand of this rep hold the integer v exactly (and as a long long)?
inline bool fits_rep(const RepInfo &r, i128 v) {
    return r.fp ? (v > -((i128)1 << 62) && v < ((i128)1 << 62) && odd_part_fits(v, r.digits)) : (v >= r.lo && v <= r.hi);
}
inline bool ld_nan(long double x) { return x != x; }
inline bool ld_inf(long double x) { return x == std::numeric_limits<long double>::infinity() || x == -std::numeric_limits<long double>::infinity(); }
inline std::string ldstr(const RepInfo &r, long double v) {
    char b[64];
    if (!r.fp) std::snprintf(b, sizeof b, "%lld", (long long)v);
    else std::snprintf(b, sizeof b, r.digits == 24 ? "%.9g" : "%.17g", (double)v);
    return b;
}

template <typename R> struct Bnd;
template <> struct Bnd<std::int32_t> { static const long long *v() { static const long long a[9] = {INT32_MIN, INT32_MIN + 1, -(1LL << 30), -1, 0, 1, 1LL << 30, INT32_MAX - 1, INT32_MAX}; return a; } };
template <> struct Bnd<std::int64_t> { static const long long *v() { static const long long a[9] = {INT64_MIN, INT64_MIN + 1, -(1LL << 62), -1, 0, 1, 1LL << 62, INT64_MAX - 1, INT64_MAX}; return a; } };
template <> struct Bnd<float> { static const long long *v() { static const long long a[9] = {-(1LL << 24) - 2, -(1LL << 24), -(1LL << 24) + 1, -1, 0, 1, (1LL << 24) - 1, 1LL << 24, (1LL << 24) + 2}; return a; } };
template <> struct Bnd<double> { static const long long *v() { static const long long a[9] = {-(1LL << 53) - 2, -(1LL << 53), -(1LL << 53) + 1, -1, 0, 1, (1LL << 53) - 1, 1LL << 53, (1LL << 53) + 2}; return a; } };

// Threshold-edge alphabet (enumerated, not sampled): with [lo, hi] the range in which the common rep
// holds exact values and K1, K2 the integer factors to the common period,
//   E(K) = {hi/K, -(hi/K), lo/K} + {-1, 0, +1},  A = E(K1) u {0, +-1, +-(hi/K1)/2},  B likewise with K2;
// all of A x B, and for every a in A (b in B) the partners that put a*K1 + b*K2 resp. a*K1 - b*K2
// within one step of hi or lo.  Elements that do not fit the operand's rep exactly are dropped.
inline void side_alphabet(i128 lo, i128 hi, long long K, std::vector<i128> &out) {
    const i128 e[3] = {hi / K, -(hi / K), lo / K};
    for (int i = 0; i < 3; ++i) for (int d = -1; d <= 1; ++d) out.push_back(e[i] + d);
    out.push_back(0); out.push_back(1); out.push_back(-1);
    out.push_back(hi / K / 2); out.push_back(-(hi / K / 2));
}
inline void edge_pairs(i128 lo, i128 hi, long long K1, long long K2, std::vector<std::pair<i128, i128> > &out) {
    std::vector<i128> A, B;
    side_alphabet(lo, hi, K1, A);
    side_alphabet(lo, hi, K2, B);
    for (size_t i = 0; i < A.size(); ++i) for (size_t j = 0; j < B.size(); ++j) out.push_back(std::make_pair(A[i], B[j]));
    const i128 T[2] = {hi, lo};
    for (int t = 0; t < 2; ++t) for (int d = -1; d <= 1; ++d) {
        for (size_t i = 0; i < A.size(); ++i) {
            out.push_back(std::make_pair(A[i], (T[t] - A[i] * K1) / K2 + d));      // a*K1 + b*K2 ~ T
            out.push_back(std::make_pair(A[i], (A[i] * K1 - T[t]) / K2 + d));      // a*K1 - b*K2 ~ T
        }
        for (size_t j = 0; j < B.size(); ++j) {
            out.push_back(std::make_pair((T[t] - B[j] * K2) / K1 + d, B[j]));
            out.push_back(std::make_pair((T[t] + B[j] * K2) / K1 + d, B[j]));
        }
    }
}

// Second value alphabet for pairs whose common rep is floating: enumerated bit patterns / values
// (generated, see fp_alphabet() in c17_gen.py); judged against chrono alone.
template <typename R> struct FpAl;
//@FPAL@

// everything the implementation and chrono say about one pair of durations
struct Obs {
    bool x[6], l[6], r[6], m[6];     // chrono; duration op quantity; quantity op duration; quantity op quantity
    long double xc[2], au[2][2];     // [sum|difference] inside chrono; [sum|difference][dq|qd] count of as_chrono_duration(result)
    bool eq[2][2];                   // as_chrono_duration(result) == chrono's result, compared as durations
    long double a, b, c1, c2;        // FpAl path: the two counts and chrono's own conversions of them to the common type
};
struct Pair {
    RepInfo r1, r2, c;
    long long K1, K2;
    const long long *bnd1, *bnd2;
    int n1, n2, sum_type_same;
    void (*obs_int)(long long, long long, bool, bool, Obs &);
    void (*obs_fp)(int, int, Obs &);
};
struct MStats {
    unsigned long long evals = 0, ops = 0, skip_conv = 0, skip_arith = 0, band = 0, band_disagree = 0,
                       oracle_disagree = 0, viol = 0, qq_disagree = 0, edge = 0, edge_dropped = 0,
                       fp_evals = 0, fp_ops = 0, fp_ovf = 0, fp_ovf_disagree = 0, fp_nan_dc = 0, fp_nan_dc_disagree = 0,
                       fp_nan_demanded = 0, fp_zero_sign_diff = 0;
    unsigned seen_true = 0, seen_false = 0;
    int shown[64] = {0};
};
static const char *const OPNAME[8] = {"==", "!=", "<", "<=", ">", ">=", "+", "-"};

// kind 0 "mixed", 1 "mixed-band" (sa, sb = the integer counts), 2 "mixed-fp" (ra, rb = FpAl indices)
inline void emit(int id, MStats &st, int kind, int op, int form, const std::string &sa, const std::string &sb,
                 long long ra, long long rb, const std::string &au, const std::string &chrono, const std::string &exact) {
    static const char *KIND[3] = {"mixed", "mixed-band", "mixed-fp"};
    ++st.viol;
    if (st.shown[kind * 16 + op * 2 + form]++ < 2)
        std::printf("V {\"inst\":%d,\"kind\":\"%s\",\"op\":\"%s\",\"form\":\"%s\",\"a\":\"%s\",\"b\":\"%s\",\"ra\":\"%lld\",\"rb\":\"%lld\","
                    "\"au\":\"%s\",\"chrono\":\"%s\",\"exact\":\"%s\"}\n", id, KIND[kind], OPNAME[op], form ? "qd" : "dq",
                    sa.c_str(), sb.c_str(), ra, rb, au.c_str(), chrono.c_str(), exact.c_str());
}
inline const char *tf(bool b) { return b ? "true" : "false"; }

// integer-valued counts: chrono and the exact 128-bit oracle
inline void visit(const Pair &p, int id, MStats &st, long long a, long long b) {
    const i128 v1 = (i128)a * p.K1, v2 = (i128)b * p.K2;
    ++st.evals;
    bool band = false;
    if (!(exact_ok(p.c, v1) && exact_ok(p.c, v2))) {
        if (!p.c.fp) { ++st.skip_conv; return; }   // chrono's common_type conversion overflows: not executed
        band = true;                               // chrono's own conversion rounds (it does not overflow): still demanded
    }
    st.band += band;
    const i128 ex[2] = {v1 + v2, v1 - v2};
    const bool dom[2] = {exact_ok(p.c, ex[0]), exact_ok(p.c, ex[1])};
    Obs o;
    p.obs_int(a, b, p.c.fp || dom[0], p.c.fp || dom[1], o);
    const bool e[6] = {v1 == v2, v1 != v2, v1 < v2, v1 <= v2, v1 > v2, v1 >= v2};
    for (int k = 0; k < 6; ++k) {
        st.ops += 2;
        if (!band) {
            if (o.x[k] != e[k]) ++st.oracle_disagree;
            st.qq_disagree += (o.m[k] != o.x[k]);
            (o.x[k] ? st.seen_true : st.seen_false) |= 1u << k;
        } else {
            st.band_disagree += (o.l[k] != o.x[k]) + (o.r[k] != o.x[k]);
        }
        if (o.l[k] != o.x[k]) emit(id, st, band, k, 0, vf::int_str(a), vf::int_str(b), a, b, tf(o.l[k]), tf(o.x[k]), tf(e[k]));
        if (o.r[k] != o.x[k]) emit(id, st, band, k, 1, vf::int_str(a), vf::int_str(b), a, b, tf(o.r[k]), tf(o.x[k]), tf(e[k]));
    }
    for (int k = 0; k < 2; ++k) {
        bool bnd = band;
        if (!dom[k]) {
            if (!p.c.fp) { ++st.skip_arith; continue; }
            bnd = true;
        }
        if (!bnd && !((i128)o.xc[k] == ex[k])) ++st.oracle_disagree;
        for (int f = 0; f < 2; ++f) {
            ++st.ops;
            const bool agree = o.eq[k][f] || (ld_nan(o.au[k][f]) && ld_nan(o.xc[k]));
            if (bnd) st.band_disagree += !agree;
            if (!agree) emit(id, st, bnd, 6 + k, f, vf::int_str(a), vf::int_str(b), a, b, ldstr(p.c, o.au[k][f]), ldstr(p.c, o.xc[k]), vf::int_str(ex[k]));
        }
    }
}

// enumerated floating / boundary counts: chrono alone is the reference
inline void visit_fp(const Pair &p, int id, MStats &st, int ia, int ib) {
    Obs o;
    p.obs_fp(ia, ib, o);
    ++st.fp_evals;
    const bool ovf = (ld_inf(o.c1) && !ld_inf(o.a)) || (ld_inf(o.c2) && !ld_inf(o.b));   // chrono overflowed: don't care
    const bool nanop = ld_nan(o.c1) || ld_nan(o.c2);
    for (int k = 0; k < 6; ++k) {
        st.fp_ops += 2;
        const int dis = (o.l[k] != o.x[k]) + (o.r[k] != o.x[k]);
        // libstdc++ derives <= and >= from < by negation, so with a NaN count chrono answers true
        // where the IEEE comparison is false: counted don't-care
        if (nanop && (k == 3 || k == 5)) { st.fp_nan_dc += 2; st.fp_nan_dc_disagree += dis; continue; }
        if (ovf) { st.fp_ovf += 2; st.fp_ovf_disagree += dis; continue; }
        st.fp_nan_demanded += nanop ? 2 : 0;
        if (o.l[k] != o.x[k]) emit(id, st, 2, k, 0, ldstr(p.r1, o.a), ldstr(p.r2, o.b), ia, ib, tf(o.l[k]), tf(o.x[k]), "-");
        if (o.r[k] != o.x[k]) emit(id, st, 2, k, 1, ldstr(p.r1, o.a), ldstr(p.r2, o.b), ia, ib, tf(o.r[k]), tf(o.x[k]), "-");
    }
    for (int k = 0; k < 2; ++k)
        for (int f = 0; f < 2; ++f) {
            st.fp_ops += 1;
            const bool bothnan = ld_nan(o.au[k][f]) && ld_nan(o.xc[k]);
            const bool agree = bothnan || (o.au[k][f] == o.xc[k] && o.eq[k][f]);
            const bool ovs = ovf || (ld_inf(o.xc[k]) && !ld_inf(o.c1) && !ld_inf(o.c2));
            if (ovs) { ++st.fp_ovf; st.fp_ovf_disagree += !agree; continue; }
            st.fp_nan_demanded += nanop ? 1 : 0;
            if (agree && !bothnan && std::signbit(o.au[k][f]) != std::signbit(o.xc[k])) ++st.fp_zero_sign_diff;
            if (!agree) emit(id, st, 2, 6 + k, f, ldstr(p.r1, o.a), ldstr(p.r2, o.b), ia, ib, ldstr(p.c, o.au[k][f]), ldstr(p.c, o.xc[k]), "-");
        }
}

// mode 0: all alphabets; 1: the single integer pair (one_a, one_b); 2: the single FpAl pair (indices)
inline void run_pair(const Pair &p, int id, int lo8, int hi8, long long one_a, long long one_b, int mode) {
    MStats st;
    if (mode == 1) {
        visit(p, id, st, one_a, one_b);
    } else if (mode == 2) {
        visit_fp(p, id, st, (int)one_a, (int)one_b);
    } else {
        for (int a = lo8; a <= hi8; ++a)
            for (int b = lo8; b <= hi8; ++b) visit(p, id, st, a, b);
        for (int i = 0; i < 9; ++i)
            for (int j = 0; j < 9; ++j) visit(p, id, st, p.bnd1[i], p.bnd2[j]);
        std::vector<std::pair<i128, i128> > ep;
        edge_pairs(p.c.lo, p.c.hi, p.K1, p.K2, ep);
        for (size_t i = 0; i < ep.size(); ++i) {
            if (!fits_rep(p.r1, ep[i].first) || !fits_rep(p.r2, ep[i].second)) { ++st.edge_dropped; continue; }
            ++st.edge;
            visit(p, id, st, (long long)ep[i].first, (long long)ep[i].second);
        }
        if (p.c.fp)
            for (int i = 0; i < p.n1; ++i)
                for (int j = 0; j < p.n2; ++j) visit_fp(p, id, st, i, j);
    }
    std::printf("S {\"inst\":%d,\"evals\":%llu,\"ops\":%llu,\"skip_conv\":%llu,\"skip_arith\":%llu,\"band\":%llu,"
                "\"band_disagree\":%llu,\"oracle_disagree\":%llu,\"viol\":%llu,\"seen_true\":%u,\"seen_false\":%u,"
                "\"sum_type_same\":%d,\"qq_disagree\":%llu,\"edge\":%llu,\"edge_dropped\":%llu,\"fp_evals\":%llu,\"fp_ops\":%llu,"
                "\"fp_ovf\":%llu,\"fp_ovf_disagree\":%llu,\"fp_nan_dc\":%llu,\"fp_nan_dc_disagree\":%llu,\"fp_nan_demanded\":%llu,"
                "\"fp_zero_sign_diff\":%llu}\n", id, st.evals, st.ops, st.skip_conv, st.skip_arith, st.band,
                st.band_disagree, st.oracle_disagree, st.viol, st.seen_true, st.seen_false,
                p.sum_type_same, st.qq_disagree, st.edge, st.edge_dropped, st.fp_evals, st.fp_ops,
                st.fp_ovf, st.fp_ovf_disagree, st.fp_nan_dc, st.fp_nan_dc_disagree, st.fp_nan_demanded, st.fp_zero_sign_diff);
    std::fflush(stdout);
}

template <typename D1, typename D2, long long K1, long long K2>
struct Mixed {
    typedef typename D1::rep R1;
    typedef typename D2::rep R2;
    typedef typename std::common_type<R1, R2>::type C;
    typedef typename std::common_type<D1, D2>::type CT;

    __attribute__((noinline)) static void observe(const D1 &d1, const D2 &d2, bool do_sum, bool do_dif, Obs &o) {
        const auto q1 = au::as_quantity(d1);
        const auto q2 = au::as_quantity(d2);
        const bool x[6] = {d1 == d2, d1 != d2, d1 < d2, d1 <= d2, d1 > d2, d1 >= d2};
        const bool l[6] = {d1 == q2, d1 != q2, d1 < q2, d1 <= q2, d1 > q2, d1 >= q2};
        const bool r[6] = {q1 == d2, q1 != d2, q1 < d2, q1 <= d2, q1 > d2, q1 >= d2};
        const bool m[6] = {q1 == q2, q1 != q2, q1 < q2, q1 <= q2, q1 > q2, q1 >= q2};   // info only (C08's business)
        for (int k = 0; k < 6; ++k) { o.x[k] = x[k]; o.l[k] = l[k]; o.r[k] = r[k]; o.m[k] = m[k]; }
        if (do_sum) {
            const auto xc = d1 + d2;
            const auto a = au::as_chrono_duration(d1 + q2);
            const auto b = au::as_chrono_duration(q1 + d2);
            o.xc[0] = xc.count(); o.au[0][0] = a.count(); o.au[0][1] = b.count();
            o.eq[0][0] = (a == xc); o.eq[0][1] = (b == xc);
        }
        if (do_dif) {
            const auto xc = d1 - d2;
            const auto a = au::as_chrono_duration(d1 - q2);
            const auto b = au::as_chrono_duration(q1 - d2);
            o.xc[1] = xc.count(); o.au[1][0] = a.count(); o.au[1][1] = b.count();
            o.eq[1][0] = (a == xc); o.eq[1][1] = (b == xc);
        }
    }
    static void obs_int(long long a, long long b, bool do_sum, bool do_dif, Obs &o) {
        observe(D1{static_cast<R1>(a)}, D2{static_cast<R2>(b)}, do_sum, do_dif, o);
    }
    static void obs_fp(int ia, int ib, Obs &o) {
        const R1 a = FpAl<R1>::get(ia);
        const R2 b = FpAl<R2>::get(ib);
        const D1 d1{a};
        const D2 d2{b};
        o.a = a; o.b = b;
        o.c1 = CT(d1).count(); o.c2 = CT(d2).count();      // chrono's own conversions to the common type
        observe(d1, d2, true, true, o);
    }
    static void run(int id, int lo8, int hi8, long long one_a, long long one_b, int mode) {
        typedef decltype(std::declval<D1>() + std::declval<D2>()) XC;
        typedef decltype(au::as_chrono_duration(std::declval<D1>() + au::as_quantity(std::declval<D2>()))) AC;
        (void)sizeof(au::as_quantity(std::declval<D1>()) + au::as_quantity(std::declval<D2>()));
        (void)sizeof(au::as_quantity(std::declval<D1>()) - au::as_quantity(std::declval<D2>()));
        Pair p = {Lim<R1>::get(), Lim<R2>::get(), Lim<C>::get(), K1, K2, Bnd<R1>::v(), Bnd<R2>::v(), FpAl<R1>::n, FpAl<R2>::n,
                  (int)std::is_same<XC, AC>::value, &obs_int, &obs_fp};
        run_pair(p, id, lo8, hi8, one_a, one_b, mode);
    }
};
}  // namespace c17
'''


# ------------------------------------------------------------------ value alphabet for (c), floating common rep
def float_bits(x, rep):
    import struct
    return struct.unpack("<I", struct.pack("<f", x))[0] if rep == "float" else \
        struct.unpack("<Q", struct.pack("<d", x))[0]


FP_VALUES = [0.0, -0.0, 0.1, -0.1, 1e-3, 0.5, 1.0 / 3, 1.0, 1.5, 2.5, 3.0, -7.0, 1000.0, 1000.5, 123456.789,
             -2.718281828459045, 2.0 ** 24 - 1, 2.0 ** 24, 2.0 ** 24 + 2, 1e10, 2.0 ** 53, 2.0 ** 53 + 2, 1e30]


def fp_alphabet(rep):
    '''Enumerated counts for a floating rep (bit patterns), or boundary integers for an integral rep
    that meets a floating one.  -> (list of ints, list of human-readable descriptions)'''
    if rep in FP:
        bits = 32 if rep == "float" else 64
        mant = 23 if rep == "float" else 52
        sign = 1 << (bits - 1)
        inf = float_bits(float("inf"), rep)
        one = float_bits(1.0, rep)
        pats = [(float_bits(v, rep), repr(v)) for v in FP_VALUES]
        pats += [(1, "denorm_min"), (sign | 1, "-denorm_min"), ((1 << mant) - 1, "largest denormal"),
                 (1 << mant, "smallest normal"), (one + 1, "1+ulp"), (one - 1, "1-ulp/2"),
                 (inf - 1, "max"), (sign | (inf - 1), "-max"), (inf - 1 - (1 << mant), "max/2"),
                 (inf, "+inf"), (sign | inf, "-inf"), (inf | (1 << (mant - 1)), "quiet NaN"),
                 (sign | inf | (1 << (mant - 1)) | 5, "-NaN with payload"), (inf + 1, "signalling NaN")]
        return [p for p, _ in pats], [n for _, n in pats]
    lo, hi = core.tmin(rep), core.tmax(rep)
    v = [0, 1, -1, 3, -3, 7, 1000, 2 ** 24 + 1, -(2 ** 24 + 1), hi, lo, hi - 1, hi // 2, hi // 3]
    if rep == "int64_t":
        v += [2 ** 53 + 1, -(2 ** 53 + 1)]
    return v, [str(x) for x in v]


def fpal_cpp():
    out = []
    for rep in REPS:
        vals, _ = fp_alphabet(rep)
        if rep in FP:
            ut = "std::uint32_t" if rep == "float" else "std::uint64_t"
            out.append("template <> struct FpAl<%s> { static constexpr int n = %d; static %s get(int i) { "
                       "static const %s b[] = {%s}; return from_bits((i128)b[i], %s{}); } };"
                       % (rep, len(vals), rep, ut, ", ".join("%dULL" % v for v in vals), rep))
        else:
            out.append("template <> struct FpAl<std::%s> { static constexpr int n = %d; static std::%s get(int i) { "
                       "static const long long b[] = {%s}; return static_cast<std::%s>(b[i]); } };"
                       % (rep, len(vals), rep, ", ".join(ll(v) for v in vals), rep))
    return "\n".join(out)


def harness():
    return HARNESS.replace("//@FPAL@", fpal_cpp())


def lit128(v):
    if -2 ** 63 < v < 2 ** 63:
        return "(vf::i128)%dLL" % v
    if v == -2 ** 63:
        return "(-(vf::i128)9223372036854775807LL-1)"
    if 0 <= v < 2 ** 64:
        return "(vf::i128)%dULL" % v
    raise ValueError(v)


def emit_roundtrip_tu(path, insts, ivs, tg=None, ivt=None, only_target=None):
    """insts: [(id, Dur)]; ivs: id -> [(kind, lo, hi)]; tg: id -> [(tid, target cpp, N, Dn)] = the
    implicitly accepted targets of that duration with Period / target unit = N/Dn; ivt: id -> the
    intervals for those.  only_target = tid: replay of one (duration, target) only."""
    tg, ivt = tg or {}, ivt or {}
    out = [harness(), "namespace {"]
    for i, d in insts:
        out.append("static const c17::Iv IV%d[] = {%s};" % (
            i, ", ".join("{%d, %s, %s}" % (k, lit128(a), lit128(b)) for k, a, b in ivs[i])))
        if tg.get(i):
            out.append("static const c17::Iv IT%d[] = {%s};" % (
                i, ", ".join("{%d, %s, %s}" % (k, lit128(a), lit128(b)) for k, a, b in ivt[i])))
    out += ["}", "int main(int argc, char **argv) {",
            "  int part = argc > 1 ? std::atoi(argv[1]) : 0, nparts = argc > 2 ? std::atoi(argv[2]) : 1, k = 0;"]
    for i, d in insts:
        if only_target is None:
            out.append("  if (k++ %% nparts == part) c17::roundtrip<%s>(%d, IV%d, %d);" % (d.cpp, i, i, len(ivs[i])))
        for tid, tq, n, dn in tg.get(i, []):
            if only_target is None or only_target == tid:
                out.append("  if (k++ %% nparts == part) c17::ImplicitTarget<%s, %s, %dULL, %dULL>::run(%d, %d, IT%d, %d);"
                           % (d.cpp, tq, n, dn, i, tid, i, len(ivt[i])))
    out.append("  return 0; }")
    with open(path, "w") as f:
        f.write("\n".join(out) + "\n")


def emit_roundtrip_slices_tu(path, insts, ivs):
    """One call of roundtrip<D> per interval (slice); run as `exe k n` to execute slice k of n only."""
    out = [harness(), "namespace {"]
    for i, d in insts:
        for k, (kind, a, b) in enumerate(ivs[i]):
            out.append("static const c17::Iv IS%d_%d[] = {{%d, %s, %s}};" % (i, k, kind, lit128(a), lit128(b)))
    out += ["}", "int main(int argc, char **argv) {",
            "  int part = argc > 1 ? std::atoi(argv[1]) : 0, nparts = argc > 2 ? std::atoi(argv[2]) : 1, k = 0;"]
    for i, d in insts:
        for k in range(len(ivs[i])):
            out.append("  if (k++ %% nparts == part) c17::roundtrip<%s>(%d, IS%d_%d, 1);" % (d.cpp, i, i, k))
    out.append("  return 0; }")
    with open(path, "w") as f:
        f.write("\n".join(out) + "\n")


def emit_mixed_tu(path, insts, lo8=-128, hi8=127, single=None, single_fp=None):
    """insts: [(id, Dur a, Dur b)]; single = (x, y) runs exactly one integer value pair, single_fp =
    (ia, ib) exactly one pair of the enumerated floating alphabet (replay)."""
    out = [harness(), "int main() {"]
    for i, a, b in insts:
        _, k1, k2 = pair_factors(a, b)
        sa, sb = single or single_fp or (0, 0)
        out.append("  c17::Mixed<%s, %s, %dLL, %dLL>::run(%d, %d, %d, %s, %s, %d);" % (
            a.cpp, b.cpp, k1, k2, i, lo8, hi8, ll(sa), ll(sb), 1 if single else 2 if single_fp else 0))
    out.append("  return 0; }")
    with open(path, "w") as f:
        f.write("\n".join(out) + "\n")


def ll(v):
    return "(-9223372036854775807LL-1)" if v == -2 ** 63 else "%dLL" % v


# ------------------------------------------------------------------ value alphabets for (a)/(b)
def roundtrip_intervals(rep, w):
    """All 16-bit values placed in the rep + windows of radius w around 0, +-1, rep min / max.
    Integral reps: numeric windows.  Floating reps: numeric 16-bit values, then windows of w
    consecutive *bit patterns* (nextafter steps) around +-0, +-1, +-max (reaching inf and the first
    NaN patterns), the largest NaN patterns, and around 2^digits where integers stop being exact."""
    iv = [(0, -32768, 65535)]
    if rep in FP:
        bits = 32 if rep == "float" else 64
        sign = 1 << (bits - 1)
        inf = float_bits(float("inf"), rep)
        pts = [0, float_bits(1.0, rep), inf, float_bits(float(2 ** DIGITS[rep]), rep),
               float_bits(0.5, rep), float_bits(65536.0, rep)]
        raw = []
        for p in pts:
            for s in (0, sign):
                raw.append((max(p - w, 0) + s, min(p + w, sign - 1) + s))
        raw.append((sign - 1 - w, sign - 1))            # top positive NaN payloads
        raw.append((2 * sign - 1 - w, 2 * sign - 1))    # top negative NaN payloads
        raw.sort()
        merged = []
        for a, b in raw:
            if merged and a <= merged[-1][1] + 1:
                merged[-1] = (merged[-1][0], max(merged[-1][1], b))
            else:
                merged.append((a, b))
        return iv + [(1, a, b) for a, b in merged]
    lo, hi = core.tmin(rep), core.tmax(rep)
    raw = sorted([(lo, lo + w), (hi - w, hi), (-w, w)] + [(-32768, 65535)])
    merged = []
    for a, b in raw:
        if merged and a <= merged[-1][1] + 1:
            merged[-1] = (merged[-1][0], max(merged[-1][1], b))
        else:
            merged.append((a, b))
    return [(0, a, b) for a, b in merged]


def expected_ratio_key(d):
    return model.mag_key(model.mag_ratio(d.num, d.den))
