"""C08 value-space explorer: mixed-unit ==,!=,<,<=,>,>=,<=>,+,-,% against exact rational arithmetic.

instance = (unit pair, ordered rep pair).  Both argument orders of every operator are evaluated on
every value pair, so the unordered unit-pair grid x ALL ordered rep pairs covers every ordered
(unit, rep) combination (a ratio r and its reciprocal 1/r are the two argument orders).
The model (this file, exponent vectors / Fractions) supplies the factors K_i = unit_i / common unit,
the common rep and the promoted result rep; harness/c08_sweep.hh evaluates the exact values in
__int128 / __float128.  For an irrational unit ratio (degrees / radians) the K_i are real numbers
(given to the harness as a triple-double, exact to > 113 bits) and only floating reps are in the
statement's domain.
"""
import json
import math
import os
from decimal import Decimal, getcontext
from fractions import Fraction as Fr

from . import core, model
from .core import BITS, tmax, tmin
from .model import LIB_BY_STEM as U
from .sweep34 import cflags, lit128

SIGNED = ["int8_t", "int16_t", "int32_t", "int64_t"]
UNSIGNED = ["uint8_t", "uint16_t", "uint32_t", "uint64_t"]
FLOATS = ["float", "double", "long double"]
# reduced ordered rep-pair menu for the "shape" unit pairs of the quick tier (every width mix, both directions)
MIX = [("int32_t", "int32_t"), ("int8_t", "int16_t"), ("int16_t", "int8_t"), ("int16_t", "int64_t"), ("int64_t", "int32_t"),
       ("int8_t", "int32_t"), ("uint8_t", "uint16_t"), ("uint16_t", "uint16_t"), ("uint32_t", "uint64_t"), ("uint64_t", "uint8_t"),
       ("float", "double"), ("double", "double"), ("long double", "float"), ("double", "long double")]
UBSAN = ["-fsanitize=undefined", "-fsanitize-recover=all"]
getcontext().prec = 60


class Un:
    """A unit for this check: C++ spelling + exact magnitude (exponent vector) relative to the dimension's base unit."""

    def __init__(self, name, cpp, mag):
        self.name, self.cpp = name, cpp
        self.mag = model.mag_of_fraction(mag) if isinstance(mag, (int, Fr)) else dict(mag)
        self.frac = model.mag_fraction(self.mag) if model.mag_is_rational(self.mag) else None

    def rec(self):
        return [self.name, self.cpp, [[str(b), e.numerator, e.denominator] for b, e in self.mag.items()]]

    @staticmethod
    def from_rec(r):
        return Un(r[0], r[1], {("pi" if b == "pi" else int(b)): Fr(n, d) for b, n, d in r[2]})


def lib(stem, name=None):
    u = U[stem]
    return Un(name or stem, u.cpp, u.mag)


def scaled(base, n, d=1):
    b = U[base]
    e = b.cpp + "{}"
    if n != 1:
        e += " * au::mag<%du>()" % n
    if d != 1:
        e += " / au::mag<%du>()" % d
    return Un("%s*%d/%d" % (base, n, d), "decltype(%s)" % e, model.vmul(b.mag, model.mag_ratio(n, d)))


def prefixed(pfx, base):
    p = [x for x in model.ALL_PREFIXES if x[0] == pfx][0]
    b = U[base]
    return Un("%s<%s>" % (pfx, base), "au::%s<%s>" % (pfx, b.cpp), model.vmul(b.mag, model.prefix_mag(p)))


def power(u, e):
    return Un("%s^%d" % (u.name, e), "au::UnitPowerT<%s, %d>" % (u.cpp, e), model.vpow(u.mag, e))


def quotient(a, b):
    return Un("%s/%s" % (a.name, b.name), "au::UnitQuotientT<%s, %s>" % (a.cpp, b.cpp), model.vdiv(a.mag, b.mag))


RANKINES = Un("rankines", "au::Rankines", Fr(5, 9))


def unit_pairs(tier):
    """(ratio label, U1, U2, menu); every pair is same-dimension. Ratio = U1/U2.  The grid is generated from
    {integer, reciprocal-of-integer (= other argument order), general rational p/q, 1 (distinct equivalent units), irrational}
    x {plain, prefixed, power, quotient, dimensionless, origin-carrying} unit shapes.  menu 'all' = every ordered rep pair of
    equal signedness; 'mix' = the reduced MIX menu in the quick tier (all in thorough)."""
    m, ft, inch = lib("meters"), lib("feet"), lib("inches")
    q = [("12", ft, inch, "all"),
         ("3", lib("yards"), ft, "mix"),
         ("1000", prefixed("Kilo", "meters"), m, "all"),
         ("5/9", RANKINES, lib("kelvins"), "all"),
         ("1250/381", m, ft, "all"),
         ("7/3", scaled("meters", 7, 3), m, "mix"),
         ("3600", lib("hours"), lib("seconds"), "mix"),
         ("1000000", prefixed("Mega", "meters"), m, "mix"),
         # unit shapes other than plain / prefixed / scaled
         ("144 (squared)", power(ft, 2), power(inch, 2), "mix"),
         ("18/5 (quotient)", quotient(m, lib("seconds")), quotient(prefixed("Kilo", "meters"), lib("hours")), "mix"),
         ("1/100 (dimensionless)", lib("percent"), lib("unos"), "mix"),
         ("1 (distinct equivalent units)", prefixed("Kilo", "meters"), scaled("meters", 1000), "mix"),
         ("9/5 (origin-carrying)", lib("celsius"), lib("fahrenheit"), "mix"),
         ("999999/1000000 (large coprime factors)", scaled("meters", 999, 1000), scaled("meters", 1000, 1001), "mix"),
         ("pi/180 (irrational)", lib("degrees"), lib("radians"), "mix")]
    if tier == "thorough":
        q += [("5280", lib("miles"), ft, "all"),
              ("86400", lib("days"), lib("seconds"), "all"),
              ("127/5000", inch, m, "all"),
              ("201168/125", lib("miles"), m, "all"),
              ("1852", lib("nautical_miles"), m, "all"),
              ("8", lib("bytes"), lib("bits"), "all"),
              ("1000000000", prefixed("Giga", "seconds"), lib("seconds"), "all"),
              ("5e15", scaled("meters", 5 * 10 ** 15), m, "all"),   # policy: uint64 yes, int64 no
              ("1024", prefixed("Kibi", "bits"), lib("bits"), "all"),
              ("14/15", scaled("meters", 2, 3), scaled("meters", 5, 7), "all"),
              ("36", lib("yards"), inch, "all"),
              ("1562500/145161 (squared)", power(m, 2), power(ft, 2), "all"),
              ("1397/3125 (quotient)", quotient(lib("miles"), lib("hours")), quotient(m, lib("seconds")), "all"),
              ("1/60 (inverse)", power(lib("minutes"), -1), lib("hertz"), "all"),
              ("1/27 (cubed)", power(ft, 3), power(lib("yards"), 3), "all"),
              ("2 pi (irrational)", lib("revolutions"), lib("radians"), "all")]
    return q


def triple_double(dec):
    """A real number as three doubles whose exact sum agrees with it to ~150 bits."""
    out = []
    for _ in range(3):
        f = float(dec)
        out.append(f)
        dec = dec - Decimal(f)
    return out


class Inst:
    def __init__(self, idx, label, u1, u2, r1, r2):
        self.id, self.label, self.u1, self.u2, self.r1, self.r2 = idx, label, u1, u2, r1, r2
        self.flt = r1 in FLOATS
        self.c = core.common_rep(r1, r2)
        self.p = self.c if self.flt else core.promoted(self.c)
        self.gmag = model.mag_gcd([u1.mag, u2.mag])
        k1, k2 = model.vdiv(u1.mag, self.gmag), model.vdiv(u2.mag, self.gmag)
        self.rational = model.mag_is_rational(k1) and model.mag_is_rational(k2)
        if self.rational:
            k1, k2 = model.mag_fraction(k1), model.mag_fraction(k2)
            assert k1.denominator == 1 and k2.denominator == 1 and math.gcd(int(k1), int(k2)) == 1
            self.k1, self.k2 = int(k1), int(k2)
            self.g = u1.frac / self.k1 if u1.frac is not None else None
            self.kf = [[float(self.k1), 0.0, 0.0], [float(self.k2), 0.0, 0.0]]
            if float(self.k1) != self.k1 or float(self.k2) != self.k2:
                self.kf = [triple_double(Decimal(self.k1)), triple_double(Decimal(self.k2))]
        else:
            self.k1 = self.k2 = 0
            self.g = None
            self.kf = [triple_double(model.mag_decimal(k1)), triple_double(model.mag_decimal(k2))]
        self.ops = {}       # cfg.name -> {"cmp":bool,"add":bool,"mod":bool,"ss":bool,"cx":bool}

    def predicted(self):
        """The documented implicit-conversion policy in the common rep: floating reps always; integral reps need an
        integer factor that is 1 or satisfies 2147 * K <= max(common rep)."""
        if self.flt:
            return True
        if not self.rational:
            return False
        return all(k == 1 or 2147 * k <= tmax(self.c) for k in (self.k1, self.k2))

    def desc(self):
        return "U1=%s:R1=%s:U2=%s:R2=%s" % (self.u1.name, self.r1, self.u2.name, self.r2)


def instances(tier):
    out = []
    for (label, u1, u2, menu) in unit_pairs(tier):
        if menu == "mix" and tier == "quick":
            pairs = MIX
        else:
            pairs = [(a, b) for fam in (SIGNED, UNSIGNED, FLOATS) for a in fam for b in fam]
        for r1, r2 in pairs:
            it = Inst(len(out), label, u1, u2, r1, r2)
            it.in_mix = (r1, r2) in MIX
            if not it.rational and not it.flt:
                continue        # an irrational ratio with integral reps: the library refuses it (policy), nothing to sweep
            out.append(it)
    return out


def _merge(iv):
    merged = []
    for a, z in sorted(iv):
        if merged and a <= merged[-1][1] + 1:
            merged[-1] = (merged[-1][0], max(merged[-1][1], z))
        else:
            merged.append((a, z))
    return merged


def window_alphabet(r_i, k_i, c, p, radius):
    """Breakpoint windows for one operand (rep r_i, factor k_i into common rep c, result rep p)."""
    lo, hi = tmin(r_i), tmax(r_i)
    b = {0, 1, lo, hi, tmax(c) // k_i, tmax(c) // k_i + 1, tmax(r_i) // k_i, tmax(r_i) // k_i + 1,
         tmax(p) // (2 * k_i), 2 ** 15, 2 ** 16, 2 ** 31, 2 ** 32, 2 ** 63, 127, 255}
    for w in (8, 16, 32):       # the narrower reps' own overflow thresholds (operand-wise conversion)
        b.add((2 ** (w - 1) - 1) // k_i)
        b.add((2 ** w - 1) // k_i)
    if lo < 0:
        b |= {-x for x in b} | {-((-tmin(c)) // k_i), -((-tmin(c)) // k_i) - 1}
    return _merge((max(x - radius, lo), min(x + radius, hi)) for x in b if x + radius >= lo and x - radius <= hi)


def lattice_alphabet(r_i, k_i, step):
    """Enumerated mid-range lattice for one operand: {2^j, 3*2^(j-1), 5*2^(j-2), 2^j / K, 3*2^(j-1) / K} +- 1 and negatives,
    j = 2, 2+step, ... over the whole range of the rep (values between the breakpoint windows)."""
    lo, hi = tmin(r_i), tmax(r_i)
    lat = set()
    for j in range(2, 64, step):
        lat |= {2 ** j, 3 * 2 ** (j - 1), 5 * 2 ** (j - 2), (2 ** j) // k_i, (3 * 2 ** (j - 1)) // k_i}
    if lo < 0:
        lat |= {-x for x in lat}
    return _merge((max(x - 1, lo), min(x + 1, hi)) for x in lat if x + 1 >= lo and x - 1 <= hi)


def probes_for(insts, cfg):
    ps = []
    cxx20 = cfg.std == "c++20"
    for it in insts:
        mk = ("auto a = au::make_quantity<%s>(static_cast<%s>(1)); auto b = au::make_quantity<%s>(static_cast<%s>(1)); "
              % (it.u1.cpp, it.r1, it.u2.cpp, it.r2))
        exp = "accept" if it.predicted() else "reject"
        groups = [("cmp", "(void)(a == b); (void)(a != b); (void)(a < b); (void)(a <= b); (void)(a > b); (void)(a >= b); "
                          "(void)(b == a); (void)(b != a); (void)(b < a); (void)(b <= a); (void)(b > a); (void)(b >= a);"),
                  ("add", "(void)(a + b); (void)(b + a); (void)(a - b); (void)(b - a);")]
        if not it.flt:
            groups.append(("mod", "(void)(a % b); (void)(b % a);"))
        if cxx20:
            groups.append(("ss", "(void)(a <=> b); (void)(b <=> a);"))
        for g, body in groups:
            ps.append(core.Probe((it.id, g), mk + body, exp, {"inst": it.id, "group": g}))
        if it.predicted():
            # the operators in constant expressions (the everyday static_assert use); integral reps: with the exact values
            ck = mk.replace("auto a", "constexpr auto a").replace("auto b", "constexpr auto b")
            body = ("constexpr bool lt = a < b, eq = a == b, ge = b >= a, ne = b != a; constexpr auto s = a + b; constexpr auto d = b - a; "
                    "(void)lt; (void)eq; (void)ge; (void)ne; (void)s; (void)d; ")
            if not it.flt:
                body += "constexpr auto m = a % b; (void)m; "
                body += ("static_assert(lt == (%dull < %dull) && eq == (%dull == %dull), \"\"); " % (it.k1, it.k2, it.k1, it.k2))
                if it.k1 + it.k2 <= tmax(it.p):
                    body += ("static_assert(s.in(decltype(s)::unit) == %dull + %dull, \"\"); static_assert(m.in(decltype(m)::unit) == %dull %% %dull, \"\"); "
                             % (it.k1, it.k2, it.k1, it.k2))
            if cxx20:
                body += "constexpr auto o = a <=> b; (void)o; "
            ps.append(core.Probe((it.id, "cx"), ck + body, "accept", {"inst": it.id, "group": "cx"}))
    return ps


def emit_tu(path, insts, cfg, radius, fexp):
    out = ['#include "c08_sweep.hh"', "namespace {"]
    for it in insts:
        ops = it.ops[cfg.name]
        out.append("struct I%d { typedef %s U1; typedef %s U2; typedef %s R1; typedef %s R2; typedef %s C; typedef %s P; "
                   "static constexpr unsigned long long K1 = %dull, K2 = %dull; "
                   "static constexpr bool ADD = %s, MOD = %s, SS = %s, KINT = %s; "
                   "static c08::f128 k1f() { return (c08::f128)%r + (c08::f128)%r + (c08::f128)%r; } "
                   "static c08::f128 k2f() { return (c08::f128)%r + (c08::f128)%r + (c08::f128)%r; } };"
                   % ((it.id, it.u1.cpp, it.u2.cpp, it.r1, it.r2, it.c, it.p,
                       it.k1 if it.k1 < 2 ** 64 else 0, it.k2 if it.k2 < 2 ** 64 else 0,
                       str(bool(ops.get("add"))).lower(), str(bool(ops.get("mod", False))).lower(),
                       str(bool(ops.get("ss", False))).lower(), str(it.rational).lower()) + tuple(it.kf[0]) + tuple(it.kf[1])))
        if not it.flt:
            for nm, iv in (("A", it.iv1), ("B", it.iv2), ("LA", getattr(it, "lat1", [])), ("LB", getattr(it, "lat2", []))):
                iv = iv or [(1, 0)]        # an empty alphabet is emitted as one empty interval
                out.append("static const vf::Interval %s%d[] = {%s};"
                           % (nm, it.id, ", ".join("{%s, %s}" % (lit128(a), lit128(b)) for a, b in iv)))
    out.append("}")
    out.append("int main() {")
    for it in insts:
        if it.flt:
            out.append("  c08::run_flt<I%d>(%d, %d, %d, %d);" % ((it.id, it.id) + tuple(fexp)))
        else:
            out.append("  c08::run_int<I%d>(%d, A%d, %d, B%d, %d, LA%d, %d, LB%d, %d, %s, %d);"
                       % (it.id, it.id, it.id, len(it.iv1), it.id, len(it.iv2), it.id, len(getattr(it, "lat1", [])),
                          it.id, len(getattr(it, "lat2", [])), str(it.square8).lower(), getattr(it, "dense", 0)))
    out.append("  return 0; }")
    with open(path, "w") as f:
        f.write("\n".join(out) + "\n")


def weight(it):
    if it.flt:
        return 3_000_000
    n = lambda iv: sum(b - a + 1 for a, b in iv)
    n1, n2 = n(it.iv1), n(it.iv2)
    w = n1 * n2 + 65536 + n(getattr(it, "lat1", [])) * n(getattr(it, "lat2", []))
    d = getattr(it, "dense", 0)
    if d:
        for r, m in ((it.r1, n2), (it.r2, n1)):
            if BITS[r] == 16:
                w += 65536 * (7 if d == 1 else m)
    return w


def build_and_run(wd, cfg, tag, insts, flags, radius, fexp, nsplit, timeout=3000):
    d = os.path.join(wd, tag)
    os.makedirs(d, exist_ok=True)
    # greedy balance by estimated number of pairs
    groups = [[] for _ in range(max(1, min(nsplit, len(insts))))]
    load = [0] * len(groups)
    for it in sorted(insts, key=lambda i: (-weight(i), i.id)):
        k = load.index(min(load))
        groups[k].append(it)
        load[k] += weight(it) + 2_000_000       # + a per-instance compile-cost term
    fl = ["-O1"] + list(flags) + cflags(cfg)
    core.pch_dir(cfg, fl)

    def job(k):
        src = os.path.join(d, "sw%d.cc" % k)
        exe = os.path.join(d, "sw%d" % k)
        emit_tu(src, sorted(groups[k], key=lambda i: i.id), cfg, radius, fexp)
        rc, err = core.build_exe(cfg, src, exe, fl)
        if rc != 0:
            raise core.InfraError("C08 sweep TU failed to build (%s):\n%s" % (src, err[-3000:]))
        env = dict(os.environ)
        env["UBSAN_OPTIONS"] = "halt_on_error=0:print_stacktrace=0"
        rc, out, err = core.sh([exe], timeout=timeout, env=env)
        if rc == 3 and '"kind":"trap"' in out:
            return out      # the library trapped on an in-precondition pair: reported as a violation
        if rc != 0:
            raise core.InfraError("C08 sweep binary %s failed rc=%d: %s" % (exe, rc, err[-2000:]))
        try:
            os.remove(exe)
        except OSError:
            pass
        return out

    stats, viols = [], []
    for out in core.pmap(job, range(len(groups))):
        for line in out.split("\n"):
            if line.startswith("S "):
                stats.append(json.loads(line[2:]))
            elif line.startswith("V "):
                viols.append(json.loads(line[2:]))
    return stats, viols


# ---------------------------------------------------------------- second (Python) oracle route
def py_expect(it, kind, op, order, x1, x2):
    """Recompute the expectation with Fractions from the unit magnitudes (not from K1/K2).
    Returns (in_statement, expected-as-string-or-None)."""
    if it.u1.frac is None or it.u2.frac is None or it.g is None:
        return True, None
    try:
        a, b = Fr(x1) * it.u1.frac, Fr(x2) * it.u2.frac      # exact quantities in base units
    except (ValueError, ZeroDivisionError):
        return True, None
    if order == 1:
        a, b = b, a
    g = it.g
    if not it.flt:
        for v in (a / g, b / g):
            if v.denominator != 1 or not (tmin(it.c) <= v <= tmax(it.c)):
                return False, None
    if kind in ("cmp-exact", "spaceship-exact"):
        if op == "<=>":
            return True, "less" if a < b else "equal" if a == b else "greater"
        val = {"<": a < b, "==": a == b, ">": a > b, "<=": a <= b, ">=": a >= b, "!=": a != b}[op]
        return True, "true" if val else "false"
    if it.flt:
        return True, None
    if kind == "sum":
        r = (a + b) / g
    elif kind == "diff":
        r = (a - b) / g
    elif kind == "mod":
        if b == 0:
            return False, None
        q = abs(a) // abs(b)
        q = q if (a >= 0) == (b >= 0) else -q
        r = (a - q * b) / g           # truncated division, like the built-in %
    else:
        return True, None
    if r.denominator != 1:
        return False, None
    return True, str(int(r))


TR_TEMPLATE = r'''
#include "c08_sweep.hh"
int main(int argc, char **argv) {
    const int part = argc > 1 ? std::atoi(argv[1]) : 0, nparts = argc > 2 ? std::atoi(argv[2]) : 1;
    const int chain = argc > 3 ? std::atoi(argv[3]) : 0;
    switch (chain) {
%s
    }
    return 0;
}
'''


def chains(tier):
    F, I, Y = "au::Feet", "au::Inches", "au::Yards"
    s = {F: "int16_t", I: "int32_t", Y: "int64_t"}
    u = {F: "uint16_t", I: "uint32_t", Y: "uint64_t"}
    nm = {F: "ft", I: "in", Y: "yd"}
    perms = [(F, I, Y), (I, Y, F), (Y, F, I)]
    if tier == "thorough":
        perms += [(F, Y, I), (I, F, Y), (Y, I, F)]
    out = []
    for reps in ((s, u) if tier == "thorough" else (s,)):
        for p in perms:
            out.append(("%s" % "/".join("%s:%s" % (nm[x], reps[x]) for x in p),
                        ", ".join("%s, %s" % (x, reps[x]) for x in p)))
    if tier == "quick":
        out.append(("/".join("%s:%s" % (nm[x], u[x]) for x in perms[0]),
                    ", ".join("%s, %s" % (x, u[x]) for x in perms[0])))
    # chains whose three pairwise common units differ (general rational ratios): Rankines 5/9 K, Kelvins, 7/3 K
    # (pairwise common units K/9, K/3, K/9) and feet / inches / meters (ratios 12, 1250/381, 15625/381... -> 5000/127)
    R, K, S = "au::Rankines", "au::Kelvins", "decltype(au::Kelvins{} * au::mag<7>() / au::mag<3>())"
    M = "au::Meters"
    rat = [("R:int32_t/K:int64_t/7K3:int16_t", "%s, int32_t, %s, int64_t, %s, int16_t" % (R, K, S)),
           ("7K3:int8_t/R:int16_t/K:int32_t", "%s, int8_t, %s, int16_t, %s, int32_t" % (S, R, K))]
    if tier == "thorough":
        rat += [("K:uint32_t/7K3:uint16_t/R:uint64_t", "%s, uint32_t, %s, uint16_t, %s, uint64_t" % (K, S, R)),
                ("ft:int32_t/in:int64_t/m:int32_t", "%s, int32_t, %s, int64_t, %s, int32_t" % (F, I, M)),
                ("m:int64_t/ft:int16_t/in:int32_t", "%s, int64_t, %s, int16_t, %s, int32_t" % (M, F, I))]
    return out + (rat[:1] if tier == "quick" else rat)


def run_transitivity(wd, cfg, tier, nparts=8):
    d = os.path.join(wd, "tr_" + cfg.name)
    os.makedirs(d, exist_ok=True)
    ch = chains(tier)
    cases = "\n".join('    case %d: c08::run_cube<%s>(%d, "%s", part, nparts); break;' % (i, c[1], 900000 + i, c[0])
                      for i, c in enumerate(ch))
    src, exe = os.path.join(d, "tr.cc"), os.path.join(d, "tr")
    open(src, "w").write(TR_TEMPLATE % cases)
    fl = ["-O1"] + cflags(cfg)
    rc, err = core.build_exe(cfg, src, exe, fl)
    if rc != 0:
        return ch, [], [], err
    def job(j):
        rc, out, err = core.sh([exe, str(j[1]), str(nparts), str(j[0])], timeout=3000)
        if rc != 0:
            raise core.InfraError("C08 transitivity binary failed: %s" % err[-1000:])
        return out

    ts, vs = [], []
    for out in core.pmap(job, [(c, p) for c in range(len(ch)) for p in range(nparts)]):
        for line in out.split("\n"):
            if line.startswith("T "):
                ts.append(json.loads(line[2:]))
            elif line.startswith("V "):
                vs.append(json.loads(line[2:]))
    return ch, ts, vs, ""
