"""C08 value-space explorer: mixed-unit ==,!=,<,<=,>,>=,<=>,+,-,% against exact rational arithmetic.

instance = (unit pair, ordered rep pair).  Both argument orders of every operator are evaluated on
every value pair, so the unordered unit-pair grid x ALL ordered rep pairs covers every ordered
(unit, rep) combination (a ratio r and its reciprocal 1/r are the two argument orders).
The model (this file, Fractions) supplies the integer factors K_i = unit_i / gcd-unit, the common rep
and the promoted result rep; harness/c08_sweep.hh evaluates the exact values in __int128 / __float128.
"""
import json
import math
import os
from fractions import Fraction as Fr

from . import core, model
from .core import BITS, tmax, tmin
from .model import LIB_BY_STEM as U
from .sweep34 import cflags, lit128

SIGNED = ["int16_t", "int32_t", "int64_t"]
UNSIGNED = ["uint16_t", "uint32_t", "uint64_t"]
FLOATS = ["float", "double"]
UBSAN = ["-fsanitize=undefined", "-fsanitize-recover=all"]


class Un:
    """A unit for this check: C++ spelling + exact magnitude relative to the dimension's base unit."""

    def __init__(self, name, cpp, frac):
        self.name, self.cpp, self.frac = name, cpp, Fr(frac)


def lib(stem, name=None):
    u = U[stem]
    return Un(name or stem, u.cpp, model.mag_fraction(u.mag))


def scaled(base, n, d=1):
    b = U[base]
    e = b.cpp + "{}"
    if n != 1:
        e += " * au::mag<%du>()" % n
    if d != 1:
        e += " / au::mag<%du>()" % d
    return Un("%s*%d/%d" % (base, n, d), "decltype(%s)" % e, model.mag_fraction(b.mag) * Fr(n, d))


def prefixed(pfx, base):
    p = [x for x in model.ALL_PREFIXES if x[0] == pfx][0]
    b = U[base]
    return Un("%s<%s>" % (pfx, base), "au::%s<%s>" % (pfx, b.cpp),
              model.mag_fraction(model.vmul(b.mag, model.prefix_mag(p))))


RANKINES = Un("rankines", "au::Rankines", Fr(5, 9))


def unit_pairs(tier):
    """(ratio label, U1, U2); every pair is same-dimension. Ratio = U1/U2."""
    q = [("12", lib("feet"), lib("inches")),
         ("3", lib("yards"), lib("feet")),
         ("1000", prefixed("Kilo", "meters"), lib("meters")),
         ("5/9", RANKINES, lib("kelvins")),
         ("1250/381", lib("meters"), lib("feet")),
         ("7/3", scaled("meters", 7, 3), lib("meters")),
         ("3600", lib("hours"), lib("seconds")),
         ("1000000", prefixed("Mega", "meters"), lib("meters"))]
    if tier == "thorough":
        q += [("5280", lib("miles"), lib("feet")),
              ("86400", lib("days"), lib("seconds")),
              ("127/5000", lib("inches"), lib("meters")),
              ("201168/125", lib("miles"), lib("meters")),
              ("1852", lib("nautical_miles"), lib("meters")),
              ("8", lib("bytes"), lib("bits")),
              ("9/5", lib("celsius"), lib("fahrenheit")),     # quantity units that carry origins
              ("1000000000", prefixed("Giga", "seconds"), lib("seconds")),
              ("5e15", scaled("meters", 5 * 10 ** 15), lib("meters")),   # policy: uint64 yes, int64 no
              ("1024", prefixed("Kibi", "bits"), lib("bits")),
              ("14/15", scaled("meters", 2, 3), scaled("meters", 5, 7)),
              ("36", lib("yards"), lib("inches"))]
    return q


def fgcd(a, b):
    return Fr(math.gcd(a.numerator * b.denominator, b.numerator * a.denominator),
              a.denominator * b.denominator)


class Inst:
    def __init__(self, idx, label, u1, u2, r1, r2):
        self.id, self.label, self.u1, self.u2, self.r1, self.r2 = idx, label, u1, u2, r1, r2
        self.flt = r1 in FLOATS
        self.c = core.common_rep(r1, r2)
        self.p = self.c if self.flt else core.promoted(self.c)
        self.g = fgcd(u1.frac, u2.frac)
        k1, k2 = u1.frac / self.g, u2.frac / self.g
        assert k1.denominator == 1 and k2.denominator == 1 and math.gcd(int(k1), int(k2)) == 1
        self.k1, self.k2 = int(k1), int(k2)
        self.ops = {}       # cfg.name -> {"cmp":bool,"add":bool,"mod":bool,"ss":bool}

    def predicted(self):
        if self.flt:
            return True
        return all(k == 1 or 2147 * k <= tmax(self.c) for k in (self.k1, self.k2))

    def desc(self):
        return "U1=%s:R1=%s:U2=%s:R2=%s" % (self.u1.name, self.r1, self.u2.name, self.r2)


def instances(tier):
    out = []
    for (label, u1, u2) in unit_pairs(tier):
        for fam in (SIGNED, UNSIGNED, FLOATS):
            for r1 in fam:
                for r2 in fam:
                    out.append(Inst(len(out), label, u1, u2, r1, r2))
    return out


def window_alphabet(r_i, k_i, c, p, radius):
    """Breakpoint windows for one operand (rep r_i, factor k_i into common rep c, result rep p)."""
    lo, hi = tmin(r_i), tmax(r_i)
    b = {0, 1, lo, hi, tmax(c) // k_i, tmax(c) // k_i + 1, tmax(r_i) // k_i, tmax(r_i) // k_i + 1,
         tmax(p) // (2 * k_i), 2 ** 15, 2 ** 16, 2 ** 31, 2 ** 32, 2 ** 63, 127, 255}
    for w in (16, 32):       # the narrower reps' own overflow thresholds (operand-wise conversion)
        b.add((2 ** (w - 1) - 1) // k_i)
        b.add((2 ** w - 1) // k_i)
    if lo < 0:
        b |= {-x for x in b} | {-((-tmin(c)) // k_i), -((-tmin(c)) // k_i) - 1}
    iv = sorted((max(x - radius, lo), min(x + radius, hi)) for x in b if x + radius >= lo and x - radius <= hi)
    merged = []
    for a, z in iv:
        if merged and a <= merged[-1][1] + 1:
            merged[-1] = (merged[-1][0], max(merged[-1][1], z))
        else:
            merged.append((a, z))
    return merged


def probes_for(insts, cfg):
    ps = []
    cxx20 = cfg.std == "c++20"
    for it in insts:
        mk = ("auto a = au::make_quantity<%s>(static_cast<%s>(1)); auto b = au::make_quantity<%s>(static_cast<%s>(1)); "
              % (it.u1.cpp, it.r1, it.u2.cpp, it.r2))
        exp = "accept" if it.predicted() else "reject"
        groups = [("cmp", "(void)(a == b); (void)(a != b); (void)(a < b); (void)(a <= b); (void)(a > b); (void)(a >= b); "
                          "(void)(b == a); (void)(b != a); (void)(b < a); (void)(b <= a); (void)(b > a); (void)(b >= a);"),
                  ("add", "(void)(a + b); (void)(b + a); (void)(a - b); (void)(b - a);")]
        if not it.flt:
            groups.append(("mod", "(void)(a % b); (void)(b % a);"))
        if cxx20:
            groups.append(("ss", "(void)(a <=> b); (void)(b <=> a);"))
        for g, body in groups:
            ps.append(core.Probe((it.id, g), mk + body, exp, {"inst": it.id, "group": g}))
    return ps


def emit_tu(path, insts, cfg, radius, fexp):
    out = ['#include "c08_sweep.hh"', "namespace {"]
    for it in insts:
        ops = it.ops[cfg.name]
        out.append("struct I%d { typedef %s U1; typedef %s U2; typedef %s R1; typedef %s R2; typedef %s C; typedef %s P; "
                   "static constexpr unsigned long long K1 = %dull, K2 = %dull; "
                   "static constexpr bool ADD = %s, MOD = %s, SS = %s; };"
                   % (it.id, it.u1.cpp, it.u2.cpp, it.r1, it.r2, it.c, it.p, it.k1, it.k2,
                      str(ops["add"]).lower(), str(ops.get("mod", False)).lower(),
                      str(ops.get("ss", False)).lower()))
        if not it.flt:
            for nm, iv in (("A", it.iv1), ("B", it.iv2)):
                out.append("static const vf::Interval %s%d[] = {%s};"
                           % (nm, it.id, ", ".join("{%s, %s}" % (lit128(a), lit128(b)) for a, b in iv)))
    out.append("}")
    out.append("int main() {")
    for it in insts:
        if it.flt:
            out.append("  c08::run_flt<I%d>(%d, %d, %d, %d);" % ((it.id, it.id) + fexp))
        else:
            out.append("  c08::run_int<I%d>(%d, A%d, %d, B%d, %d, %s);"
                       % (it.id, it.id, it.id, len(it.iv1), it.id, len(it.iv2), str(it.square8).lower()))
    out.append("  return 0; }")
    with open(path, "w") as f:
        f.write("\n".join(out) + "\n")


def weight(it):
    if it.flt:
        return 3_000_000
    n1 = sum(b - a + 1 for a, b in it.iv1)
    n2 = sum(b - a + 1 for a, b in it.iv2)
    return n1 * n2 + 65536


def build_and_run(wd, cfg, tag, insts, flags, radius, fexp, nsplit, timeout=3000):
    d = os.path.join(wd, tag)
    os.makedirs(d, exist_ok=True)
    # greedy balance by estimated number of pairs
    groups = [[] for _ in range(max(1, min(nsplit, len(insts))))]
    load = [0] * len(groups)
    for it in sorted(insts, key=lambda i: (-weight(i), i.id)):
        k = load.index(min(load))
        groups[k].append(it)
        load[k] += weight(it)
    fl = ["-O1"] + list(flags) + cflags(cfg)
    core.pch_dir(cfg, fl)

    def job(k):
        src = os.path.join(d, "sw%d.cc" % k)
        exe = os.path.join(d, "sw%d" % k)
        emit_tu(src, sorted(groups[k], key=lambda i: i.id), cfg, radius, fexp)
        rc, err = core.build_exe(cfg, src, exe, fl)
        if rc != 0:
            raise core.InfraError("C08 sweep TU failed to build (%s):\n%s" % (src, err[-3000:]))
        env = dict(os.environ)
        env["UBSAN_OPTIONS"] = "halt_on_error=0:print_stacktrace=0"
        rc, out, err = core.sh([exe], timeout=timeout, env=env)
        if rc == 3 and '"kind":"trap"' in out:
            return out      # the library trapped on an in-precondition pair: reported as a violation
        if rc != 0:
            raise core.InfraError("C08 sweep binary %s failed rc=%d: %s" % (exe, rc, err[-2000:]))
        return out

    stats, viols = [], []
    for out in core.pmap(job, range(len(groups))):
        for line in out.split("\n"):
            if line.startswith("S "):
                stats.append(json.loads(line[2:]))
            elif line.startswith("V "):
                viols.append(json.loads(line[2:]))
    return stats, viols


# ---------------------------------------------------------------- second (Python) oracle route
def py_expect(it, kind, op, order, x1, x2):
    """Recompute the expectation with Fractions from the unit magnitudes (not from K1/K2).
    Returns (in_statement, expected-as-string-or-None)."""
    try:
        a, b = Fr(x1) * it.u1.frac, Fr(x2) * it.u2.frac      # exact quantities in base units
    except (ValueError, ZeroDivisionError):
        return True, None
    if order == 1:
        a, b = b, a
    g = it.g
    if not it.flt:
        for v in (a / g, b / g):
            if v.denominator != 1 or not (tmin(it.c) <= v <= tmax(it.c)):
                return False, None
    if kind in ("cmp-exact", "spaceship-exact"):
        if op == "<=>":
            return True, "less" if a < b else "equal" if a == b else "greater"
        val = {"<": a < b, "==": a == b, ">": a > b, "<=": a <= b, ">=": a >= b, "!=": a != b}[op]
        return True, "true" if val else "false"
    if it.flt:
        return True, None
    if kind == "sum":
        r = (a + b) / g
    elif kind == "diff":
        r = (a - b) / g
    elif kind == "mod":
        if b == 0:
            return False, None
        q = abs(a) // abs(b)
        q = q if (a >= 0) == (b >= 0) else -q
        r = (a - q * b) / g           # truncated division, like the built-in %
    else:
        return True, None
    if r.denominator != 1 or not (tmin(it.p) <= r <= tmax(it.p)):
        return False, None
    return True, str(int(r))


TR_TEMPLATE = r'''
#include "c08_sweep.hh"
int main(int argc, char **argv) {
    const int part = argc > 1 ? std::atoi(argv[1]) : 0, nparts = argc > 2 ? std::atoi(argv[2]) : 1;
    const int chain = argc > 3 ? std::atoi(argv[3]) : 0;
    switch (chain) {
%s
    }
    return 0;
}
'''


def chains(tier):
    F, I, Y = "au::Feet", "au::Inches", "au::Yards"
    s = {F: "int16_t", I: "int32_t", Y: "int64_t"}
    u = {F: "uint16_t", I: "uint32_t", Y: "uint64_t"}
    nm = {F: "ft", I: "in", Y: "yd"}
    perms = [(F, I, Y), (I, Y, F), (Y, F, I)]
    if tier == "thorough":
        perms += [(F, Y, I), (I, F, Y), (Y, I, F)]
    out = []
    for reps in ((s, u) if tier == "thorough" else (s,)):
        for p in perms:
            out.append(("%s" % "/".join("%s:%s" % (nm[x], reps[x]) for x in p),
                        ", ".join("%s, %s" % (x, reps[x]) for x in p)))
    if tier == "quick":
        out.append(("/".join("%s:%s" % (nm[x], u[x]) for x in perms[0]),
                    ", ".join("%s, %s" % (x, u[x]) for x in perms[0])))
    return out


def run_transitivity(wd, cfg, tier, nparts=8):
    d = os.path.join(wd, "tr_" + cfg.name)
    os.makedirs(d, exist_ok=True)
    ch = chains(tier)
    cases = "\n".join('    case %d: c08::run_cube<%s>(%d, "%s", part, nparts); break;' % (i, c[1], 900000 + i, c[0])
                      for i, c in enumerate(ch))
    src, exe = os.path.join(d, "tr.cc"), os.path.join(d, "tr")
    open(src, "w").write(TR_TEMPLATE % cases)
    fl = ["-O1"] + cflags(cfg)
    rc, err = core.build_exe(cfg, src, exe, fl)
    if rc != 0:
        raise core.InfraError("C08 transitivity TU failed to build:\n%s" % err[-3000:])

    def job(j):
        rc, out, err = core.sh([exe, str(j[1]), str(nparts), str(j[0])], timeout=3000)
        if rc != 0:
            raise core.InfraError("C08 transitivity binary failed: %s" % err[-1000:])
        return out

    ts, vs = [], []
    for out in core.pmap(job, [(c, p) for c in range(len(ch)) for p in range(nparts)]):
        for line in out.split("\n"):
            if line.startswith("T "):
                ts.append(json.loads(line[2:]))
            elif line.startswith("V "):
                vs.append(json.loads(line[2:]))
    return ch, ts, vs
