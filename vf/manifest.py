"""Regenerates MANIFEST.json from the table below:  python3 -m vf.manifest"""
import json
import os

from . import core

BASELINE_OFF = ("cmake -S /repo -B /repo/_build -G Ninja -DFETCHCONTENT_SOURCE_DIR_GOOGLETEST=/usr/src/googletest "
                "-DFETCHCONTENT_FULLY_DISCONNECTED=ON >/dev/null && cmake --build /repo/_build -j16 && "
                "ctest --test-dir /repo/_build -j8 --timeout 900")

ASSUME = ("Trusted base: g++ 12.2 / clang++ 14 (front end = interpreter of the template programs, back end "
          "executes the sweeps), Python 3.11 big integers/Fractions, and the hand-written reference model under "
          "vf/model + harness/*.hh, which contains no Au code. ")

CHECKS = {
    "C08": dict(level="exploration", technique="bounded exhaustive operand-pair enumeration for mixed-unit operators vs exact 128-bit rational arithmetic",
                text="Unit-pair grid (integer, reciprocal, rational ratios) x all ordered rep pairs of equal signedness from 16/32/64-bit (both orders of narrow/wide) "
                     "and {float,double}: the full 8-bit operand square, window x window over every overflow breakpoint, and near-diagonal pairs; all six comparisons, "
                     "+, -, %, <=> in both argument orders against exact arithmetic in the gcd unit, with the no-overflow precondition evaluated by the oracle; "
                     "trichotomy, antisymmetry and transitivity on the full 8-bit cube of a three-unit chain.",
                ref="DESIGN.md §6 C08"),
    "C09": dict(level="exploration", technique="bounded exhaustive value enumeration for point conversions/comparisons vs the exact affine map, plus accept/reject probes",
                text="Ordered pairs of point units (Kelvins/Celsius/Fahrenheit, prefixed forms, generated units with rational scale and origin) x rep pairs: every "
                     "conversion form over +-2^15 around zero, each origin and absolute zero plus limit windows, against the exact affine map with the documented "
                     "intermediate modelled and out-of-precondition values counted and never executed; comparisons, p-p, p+-q against exact absolute positions; "
                     "operations without affine meaning must be rejected while their twins compile.",
                ref="DESIGN.md §6 C09"),
    "C05": dict(level="exploration", technique="bounded exhaustive value enumeration over all 11x11 rep pairs vs a compositional stage oracle (128-bit integers, exact float castability), every-event UBSan observer",
                text="1640 compiling (source rep, target rep, factor) instances: all values of 8/16-bit sources, stage-limit windows for 32/64-bit, a structured "
                     "floating alphabet (every power of two with neighbours, limits and their pre-images +-64 ulp, NaNs, infinities, denormals), and in thorough all 2^32 "
                     "float patterns into the integral targets. The oracle mirrors the documented three stages (cast to common type, scale, cast to target) without Au "
                     "code; the real conversion is executed only where every stage is defined, under clang UBSan with handlers that count every event.",
                ref="DESIGN.md §6 C05"),
    "C15": dict(level="exploration", technique="bounded exhaustive value enumeration and accept/reject probe grids for the unit-aware math functions vs exact rational / 90-digit arithmetic",
                text="Rounding: 29 unit pairs x reps x 12 function forms over every integer in +-2^16, every half-integer and ulp-neighbourhoods, against the exact value "
                     "with an explicit floating-error don't-care band. Inversion: all 625x2 prefix pairs x 6 reps as accept/reject probes (threshold 10^6), trunc(K/x) over "
                     "+-2^16 and the round trip for all n in 1..1000. Trig/cmath wrappers against the std function on exactly converted operands, incl. both orders of "
                     "(narrow, wide) rep pairs with the representability precondition evaluated by the oracle.",
                ref="DESIGN.md §6 C15"),
    "C20": dict(level="exploration", technique="differential enumeration over packaging selections, stand-alone headers and an API-surface family across six compiler configurations",
                text="Single-file header for every selection of at most one unit/constant header and the full selection x {io, noio} (thorough: all pairs, all-but-one): "
                     "compiles with no other Au file on the path, twice, from two linked TUs, and a selection-specific program prints the same as against the multi-header "
                     "tree. Every non-test header compiled stand-alone (twice), every *_fwd.hh followed by its definition with uses of the declared names. 43 API statements "
                     "x 11 reps: accept/reject vector and run-time output must be identical under g++/clang++ x C++14/17/20.",
                ref="DESIGN.md §6 C20"),
    "C01": dict(level="exploration", technique="exhaustive enumeration of (dimension-class pair x operation) programs as accept/reject probes through the C++ front end",
                text="Every ordered pair of distinct dimension classes (representatives include the near-misses m vs m^2, m/s vs m/s^2, rad vs unitless, N*m vs J, "
                     "Hz vs 1/s vs kBq) times every operation named in the statement, in Quantity and QuantityPoint form, is compiled and must be rejected; the same "
                     "expression on same-dimension operands must be accepted (twin, so rejections are not vacuous); trait-style questions are evaluated in a TU "
                     "that must compile and answer no. Verdicts are sound against diagnostic de-duplication (dedup-aware batches, disagreements re-decided alone).",
                ref="DESIGN.md §6 C01"),
    "C14": dict(level="exploration", technique="exhaustive enumeration of unit-pair x rep-pair programs and 8-bit operand squares vs the model algebra and raw operators",
                text="Ordered pairs over the library's 57 units and 12 generated units: product and quotient collapse to a raw number exactly when the model says "
                     "dimension 0 and magnitude 1, otherwise carry the exact product/quotient unit (Dim/Mag read out) and decltype of the raw operator; all "
                     "11x11 rep pairs on 12 unit pairs; int_pow<-4..4>, sqrt, cbrt, 1/q; all 65536 int8/uint8 operand pairs on six unit pairs; accept/reject "
                     "probes for integer division, unblock_int_div and as_raw_number against the documented rule.",
                ref="DESIGN.md §6 C14"),
    "C17": dict(level="exploration", technique="exhaustive enumeration of duration types x counts and of ordered duration pairs x value squares vs std::chrono itself and exact 128-bit arithmetic",
                text="44 duration types (4 reps x 11 periods) plus the named typedefs: as_quantity's rep/unit (unit ratio read out and compared with the exact "
                     "Period), implicit and as_chrono_duration round trips over all 16-bit counts and boundary windows (all 2^32 counts for 32-bit reps in thorough); "
                     "all 1936 ordered pairs x 8 operators in both argument orders on the 8-bit value square against the same operation inside chrono whenever a "
                     "128-bit oracle says chrono does not overflow; is_convertible<duration, Quantity> must equal that of the corresponding quantity for 50x32 targets.",
                ref="DESIGN.md §6 C17"),
    "C16": dict(level="exploration", technique="exhaustive enumeration of a constant x target-unit x type grid through the C++ front end vs exact ratio arithmetic",
                text="The 9 library constants (units checked against their SI definitions) and 12 generated constants are converted to same-dimension "
                     "target units whose ratio straddles every type's limits, for all 11 arithmetic types: can_store_value_in is read out, as<T>/in<T>/"
                     "implicit conversion values are compared with the exact ratio where representable and must be rejected by the compiler otherwise; "
                     "composition with numbers, quantities, magnitudes, makers, singular names and constants must leave the stored number bit-identical.",
                ref="DESIGN.md §6 C16"),
    "C11": dict(level="exploration", technique="exhaustive enumeration of a magnitude x type grid through the C++ front end vs exact big-integer / 90-digit arithmetic",
                text="Every magnitude of a grid of products of base powers (primes up to 2^64-59, pi; integer and fractional exponents straddling "
                     "every arithmetic type's limits, normal and denormal) is evaluated for all 11 arithmetic types: representable_in, the value "
                     "and outcome of get_value_result, is_integer/is_rational/numerator/denominator/integer_part and equality are read out and "
                     "compared with exact arithmetic; get_value<T> is an accept/reject probe. Explicit don't-care bands at max(T) and in the denormal range.",
                ref="DESIGN.md §6 C11"),
    "C13": dict(level="exploration", technique="exhaustive operand-pair / bit-pattern sweeps and per-compiler decltype enumeration vs the raw built-in operators",
                text="Layout facts for 75 units x 11 reps x Quantity/QuantityPoint on all six compiler configurations; result type of every operator "
                     "against decltype of the raw operator; all 65536 operand pairs of int8_t/uint8_t (edge windows for wider reps) for every operator "
                     "against the raw operator; bit-exact round trip over structured float/double/long double alphabets (all 2^32 float patterns in thorough).",
                ref="DESIGN.md §6 C13"),
    "C19": dict(level="exploration", technique="exhaustive value sweeps and accept/reject probe enumeration for ZERO vs literal 0",
                text="For 72 units x 11 reps every comparison/additive form with ZERO in both argument orders is compared with the same form on the raw "
                     "value and 0 over all 8/16-bit values, windows for wider reps and the special floating values; T x = ZERO for arithmetic and chrono "
                     "types; every context that requires a QuantityPoint rejects ZERO (probe) while its Quantity twin is accepted.",
                ref="DESIGN.md §6 C19"),
    "C18": dict(level="model_checking", technique="explicit-state BFS over unit expressions (C02 graph); each state's label read out and parsed by an independent grammar whose denotation is compared with the model",
                text="For every state of the C02 expression graph plus scale-factor classes up to 2^64-1, rationals, named labelled/unlabelled units, "
                     "library units and prefixes, and common(-point) units, the label (string, sizeof, strlen, NUL; under ASan) is read out, parsed with "
                     "the documented grammar and its denotation (dimension, exact magnitude) compared with the model: a unit may never print a label that "
                     "denotes a different unit. IToA/UIToA over |N|<=1100 plus decimal/binary boundaries, and operator<< over all 8/16-bit values.",
                ref="DESIGN.md §6 C18"),
    "C06": dict(level="exploration", technique="exhaustive enumeration of a (rep pair x unit ratio) grid of programs through the C++ front end vs the documented predicate",
                text="Every cell of an 11x11 rep grid times a ratio grid straddling each rep's 2147-threshold and maximum (plus reciprocals, rationals, "
                     "irrationals and factors no rep can hold) is compiled: type traits and an overload-resolution probe must evaluate without a hard "
                     "error (totality) and equal the documented predicate; unit-only .as/.in and mixed-unit operators are accept/reject probes; every "
                     "permitted integral cell converts all |x|<=2147 exactly. QuantityPoint cells are judged for totality and equal-origin agreement only.",
                ref="DESIGN.md §6 C06"),
    "C07": dict(level="model_checking", technique="explicit-state enumeration of unit multisets; every CommonUnitT formation (permutation, repetition, nesting) replayed on the real headers vs exact gcd model",
                text="States are multisets (size 2..4) of same-dimension units from per-dimension alphabets; transitions are all permutations, repetition "
                     "patterns, nesting splits and std::common_type. The implementation's result magnitude and each input/common ratio are read out and "
                     "compared with the base-wise minimum of exact prime-exponent vectors; type identity across all transitions into a state is required.",
                ref="DESIGN.md §6 C07"),
    "C10": dict(level="model_checking", technique="explicit-state enumeration of point-unit multisets; affine maps recovered from three probe points per input vs exact rational model",
                text="States are pairs/triples (thorough: 4-lists) of point units with rational scales and origins; transitions are all permutations/"
                     "repetitions of CommonPointUnitT plus per-input conversions of the points 0, 1, 7, from which the implementation's map x->a*x+b is "
                     "recovered and required to be the exact one for the implementation's own reported scale/origin, with a positive integer a and non-negative integer b.",
                ref="DESIGN.md §6 C10"),
    "C02": dict(level="model_checking", technique="explicit-state BFS over unit expressions; every model transition replayed through the C++ front end on the real headers",
                text="Breadth-first search from atomic units through products, quotients, powers, roots, scalings and prefixes to a depth bound, "
                     "de-duplicated by the canonical state of an independent exact model (atom monomial, scale magnitude as prime-exponent vector). "
                     "For every transition the implementation's Dim/Mag packs are read out and compared with the model, equal monomials must be the "
                     "identical type, equal (dim,mag) must be quantity-equivalent with ratio ONE and different magnitudes must not be. All traces are "
                     "validated against the implementation because the implementation is the transition function.",
                ref="DESIGN.md §6 C02"),
    "C03": dict(level="exploration", technique="bounded exhaustive value enumeration on the real headers vs exact 128-bit oracle, UBSan observer",
                text="Every (integral rep, factor) instance of a structured grid is swept: all values for 8/16-bit reps, "
                     "breakpoint-complete windows for 32/64-bit, all 2^32 values for a branch-covering subset in the thorough tier. "
                     "Every value the library clears is converted under clang UBSan (signed overflow, unsigned wrap, value-changing "
                     "narrowing) and compared with exact arithmetic. Exhaustive within the stated sub-spaces; not a proof for 64-bit.",
                ref="DESIGN.md §6 C03"),
    "C04": dict(level="exploration", technique="bounded exhaustive value enumeration on the real headers vs exact rational oracle",
                text="Same enumeration as C03; the three checkers are compared in both directions with exact rational semantics "
                     "(truncation iff D does not divide x*N; overflow iff x*N leaves the promoted type or x*N/D leaves T). "
                     "The solver proof mentioned in the quantifier is replaced by endpoint enumeration (exact and library "
                     "thresholds) plus 2^32-exhaustive sweeps of the same template code; stated as bounded, not proven.",
                ref="DESIGN.md §6 C04"),
}

NOT_YET = "check not built yet in this round (planned in DESIGN.md §6); not claimed until it runs clean end-to-end"


def main():
    props = [json.loads(l) for l in open(os.path.join(core.VERIF, "properties.jsonl"))]
    checks, na = [], []
    for p in props:
        pid = p["id"]
        c = CHECKS.get(pid)
        if c is None or not os.path.exists(os.path.join(core.VERIF, "vf", "checks", pid.lower() + ".py")):
            na.append({"property_id": pid, "reason": NOT_YET})
            continue
        checks.append({
            "property_id": pid,
            "quick_cmd": "bin/check %s --tier quick" % pid,
            "thorough_cmd": "bin/check %s --tier thorough" % pid,
            "evidence_file": "/verif/evidence/%s.json" % pid,
            "replay_cmd_template": "bin/check %s --replay {path}" % pid,
            "engine": "vf",
            "level_claimed": {"category": c["level"], "text": c["text"], "design_ref": c["ref"]},
            "level_note": ASSUME + c.get("note", ""),
            "technique": c["technique"],
        })
    m = {
        "version": 1,
        "setup_cmd": "python3 -m compileall -q vf && python3 -m vf.selftest",
        "hooks": {"guard": "AU_VERIF", "enable": "none required: no source hooks; every check compiles the unmodified headers under /repo/au/code",
                  "baseline_off_cmd": BASELINE_OFF, "source_commits": [], "add_only": True},
        "engines": [{"name": "vf", "path": "/verif/vf", "serves_properties": [c["property_id"] for c in checks],
                     "kind_free_text": "explicit-state / bounded-exhaustive explorers (program space via the C++ front end, value space via compiled sweeps) against an independent exact reference model"}],
        "checks": checks,
        "not_applicable": na,
        "notes": "Au has no threads, I/O or mutable state: the model-checking family applies as exhaustive enumeration of programs/values up to stated bounds against a reference model (DESIGN.md §1). Genuine defects are listed in KNOWN_FINDINGS.json.",
    }
    with open(os.path.join(core.VERIF, "MANIFEST.json"), "w") as f:
        json.dump(m, f, indent=1)
    print("checks:", [c["property_id"] for c in checks], "n/a:", len(na))


if __name__ == "__main__":
    main()
