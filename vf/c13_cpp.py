"""C13 — C++ text of the value-sweep harness (kept in Python so that harness/ and hence the shared
PCH key never change).  No expectation about Au lives here: the expected result of every operation is
what the *raw built-in operator* yields on the same operands; the only independent computation is
`Def::ok`, which decides with 128-bit integers whether the raw operation is defined at all.
"""

HARNESS = r'''
#include <vector>
#include <algorithm>
#include <csignal>
#include <cmath>
namespace c13 {
typedef __int128 i128;

template <class T> struct TN { static std::string n() { return "?"; } };
#define C13_TN(T) template <> struct TN<T> { static std::string n() { return #T; } };
C13_TN(bool) C13_TN(char) C13_TN(int8_t) C13_TN(uint8_t) C13_TN(int16_t) C13_TN(uint16_t) C13_TN(int32_t)
C13_TN(uint32_t) C13_TN(int64_t) C13_TN(uint64_t) C13_TN(long long) C13_TN(unsigned long long)
C13_TN(float) C13_TN(double) C13_TN(long double)
template <class U, class R> struct TN<au::Quantity<U, R>> { static std::string n() { return "Quantity<U," + TN<R>::n() + ">"; } };
template <class T> struct TN<T &> { static std::string n() { return TN<T>::n() + "&"; } };

// ---- object/value representation ---------------------------------------------------------------
template <class T> constexpr std::size_t vbytes() { return std::is_same<T, long double>::value ? 10 : sizeof(T); }
template <class T> inline bool bits_eq(const T &a, const T &b) { return std::memcmp(&a, &b, vbytes<T>()) == 0; }
template <class T> inline std::string bits_hex(const T &x) {
    unsigned char buf[16] = {0};
    std::memcpy(buf, &x, vbytes<T>());
    std::string s = "0x";
    char b[4];
    for (int i = (int)vbytes<T>() - 1; i >= 0; --i) { std::snprintf(b, sizeof b, "%02x", buf[i]); s += b; }
    return s;
}
template <class T> inline T from_hex(const char *h) {   // inverse of bits_hex (h without the 0x)
    unsigned char buf[16] = {0};
    std::size_t n = std::strlen(h) / 2;
    for (std::size_t i = 0; i < n; ++i) { unsigned v = 0; std::sscanf(h + 2 * i, "%2x", &v); buf[n - 1 - i] = (unsigned char)v; }
    T x{};
    std::memcpy(&x, buf, vbytes<T>());
    return x;
}
template <class T, bool I = std::is_integral<T>::value> struct Str;
template <class T> struct Str<T, true> { static std::string s(T v) { return vf::i128_str((i128)v); }
                                         static std::string h(T v) { return s(v); } };
template <class T> struct Str<T, false> { static std::string s(T v) { return bits_hex(v); }
                                          static std::string h(T v) { char b[64]; std::snprintf(b, sizeof b, "%La", (long double)v); return b; } };
template <class T> inline bool is_nan(T x) { return x != x; }

// "the same value": integers as mathematical integers, floating results bit-for-bit (any NaN == any NaN:
// which payload survives when both operands are NaN depends on operand order in the instruction)
template <class A, class B, bool Int = std::is_integral<A>::value && std::is_integral<B>::value> struct Same;
template <class A, class B> struct Same<A, B, true> { static bool eq(A a, B b) { return (i128)a == (i128)b; } };
template <class A> struct Same<A, A, false> { static bool eq(A a, A b) { return bits_eq(a, b) || (is_nan(a) && is_nan(b)); } };
template <class A, class B> struct Same<A, B, false> { static bool eq(A a, B b) { return (long double)a == (long double)b || (is_nan(a) && is_nan(b)); } };

// ---- is the raw operation defined? (independent 128-bit oracle) -----------------------------------
enum Kind { K_ADD, K_SUB, K_MUL, K_DIV, K_MOD, K_CMP, K_NEG, K_POS };
template <class R, class S, bool FP = std::is_floating_point<R>::value || std::is_floating_point<S>::value>
struct Def { static bool ok(Kind, R, S) { return true; } };
template <class R, class S> struct Def<R, S, false> {
    static bool ok(Kind k, R a, S b) {
        typedef typename std::common_type<decltype(+a), decltype(+b)>::type C;
        const i128 lo = (i128)std::numeric_limits<C>::min(), hi = (i128)std::numeric_limits<C>::max();
        const i128 A = (i128)(C)a, B = (i128)(C)b;
        const bool sg = std::is_signed<C>::value;
        if (k == K_DIV || k == K_MOD) return B != 0 && !(sg && A == lo && B == -1);
        if (k == K_NEG) { typedef decltype(+a) P; return !(std::is_signed<P>::value && (i128)a == (i128)std::numeric_limits<P>::min()); }
        if (k == K_CMP || k == K_POS || !sg) return true;
        const i128 r = k == K_ADD ? A + B : k == K_SUB ? A - B : A * B;
        return r >= lo && r <= hi;
    }
};

// ---- the operator table ------------------------------------------------------------------------------
#define C13_HEAD(NAME, KIND, UNARY) static constexpr Kind kind = KIND; static constexpr bool unary = UNARY; static const char *name() { return #NAME; }
#define C13_BINQ(NAME, OP, KIND) struct NAME { C13_HEAD(NAME, KIND, false) \
    template <class Mk, class R, class S> static auto au(Mk mk, R a, S b) { return (mk(a) OP mk(b)).in(mk); } \
    template <class R, class S> static auto raw(R a, S b) { return a OP b; } };
#define C13_CMP(NAME, OP) struct NAME { C13_HEAD(NAME, K_CMP, false) \
    template <class Mk, class R, class S> static auto au(Mk mk, R a, S b) { return mk(a) OP mk(b); } \
    template <class R, class S> static auto raw(R a, S b) { return a OP b; } };
#define C13_UN(NAME, OP, KIND) struct NAME { C13_HEAD(NAME, KIND, true) \
    template <class Mk, class R, class S> static auto au(Mk mk, R a, S) { const auto q = mk(a); return (OP q).in(mk); } \
    template <class R, class S> static auto raw(R a, S) { return OP a; } };
#define C13_ASG(NAME, OP, KIND) struct NAME { C13_HEAD(NAME, KIND, false) \
    template <class Mk, class R, class S> static auto au(Mk mk, R a, S b) { auto q = mk(a); q OP mk(b); return q.in(mk); } \
    template <class R, class S> static auto raw(R a, S b) { R r = a; r OP b; return r; } };
#define C13_SCQ(NAME, OP, KIND) struct NAME { C13_HEAD(NAME, KIND, false) \
    template <class Mk, class R, class S> static auto au(Mk mk, R a, S b) { return (mk(a) OP b).in(mk); } \
    template <class R, class S> static auto raw(R a, S b) { return a OP b; } };
#define C13_SCS(NAME, OP, KIND) struct NAME { C13_HEAD(NAME, KIND, false) \
    template <class Mk, class R, class S> static auto au(Mk mk, R a, S b) { return (b OP mk(a)).in(mk); } \
    template <class R, class S> static auto raw(R a, S b) { return b OP a; } };
#define C13_SCA(NAME, OP, KIND) struct NAME { C13_HEAD(NAME, KIND, false) \
    template <class Mk, class R, class S> static auto au(Mk mk, R a, S b) { auto q = mk(a); q OP b; return q.in(mk); } \
    template <class R, class S> static auto raw(R a, S b) { R r = a; r OP b; return r; } };
C13_BINQ(add, +, K_ADD) C13_BINQ(sub, -, K_SUB) C13_BINQ(mod, %, K_MOD)
C13_CMP(eq, ==) C13_CMP(ne, !=) C13_CMP(lt, <) C13_CMP(le, <=) C13_CMP(gt, >) C13_CMP(ge, >=)
C13_UN(pos, +, K_POS) C13_UN(neg, -, K_NEG)
C13_ASG(addeq, +=, K_ADD) C13_ASG(subeq, -=, K_SUB)
C13_SCQ(mul_qs, *, K_MUL) C13_SCS(mul_sq, *, K_MUL) C13_SCQ(div_qs, /, K_DIV)
C13_SCA(muleq, *=, K_MUL) C13_SCA(diveq, /=, K_DIV)

// ---- same-unit QuantityPoint operators (p, q: points; d: Quantity of the same unit and rep) -------------------
template <class Mk> using PM = au::QuantityPointMaker<typename Mk::Unit>;
#define C13_PCMP(NAME, OP) struct NAME { C13_HEAD(NAME, K_CMP, false) \
    template <class Mk, class R, class S> static auto au(Mk, R a, S b) { const PM<Mk> pm{}; const auto p = pm(a), q = pm(b); return p OP q; } \
    template <class R, class S> static auto raw(R a, S b) { return a OP b; } };
#define C13_PDIFF(NAME, OP, KIND) struct NAME { C13_HEAD(NAME, KIND, false) \
    template <class Mk, class R, class S> static auto au(Mk mk, R a, S b) { const PM<Mk> pm{}; const auto p = pm(a), q = pm(b); return (p OP q).in(mk); } \
    template <class R, class S> static auto raw(R a, S b) { return a OP b; } };
#define C13_PQ(NAME, OP, KIND) struct NAME { C13_HEAD(NAME, KIND, false) \
    template <class Mk, class R, class S> static auto au(Mk mk, R a, S b) { const PM<Mk> pm{}; const auto p = pm(a); const auto d = mk(b); return (p OP d).in(pm); } \
    template <class R, class S> static auto raw(R a, S b) { return a OP b; } };
#define C13_QP(NAME, OP, KIND) struct NAME { C13_HEAD(NAME, KIND, false) \
    template <class Mk, class R, class S> static auto au(Mk mk, R a, S b) { const PM<Mk> pm{}; const auto p = pm(a); const auto d = mk(b); return (d OP p).in(pm); } \
    template <class R, class S> static auto raw(R a, S b) { return b OP a; } };
#define C13_PASG(NAME, AOP, ROP, KIND) struct NAME { C13_HEAD(NAME, KIND, false) \
    template <class Mk, class R, class S> static auto au(Mk mk, R a, S b) { const PM<Mk> pm{}; auto p = pm(a); const auto d = mk(b); p AOP d; return p.in(pm); } \
    template <class R, class S> static auto raw(R a, S b) { return a ROP b; } };   /* the un-narrowed raw result: only representable ones are judged */
C13_PCMP(pt_eq, ==) C13_PCMP(pt_ne, !=) C13_PCMP(pt_lt, <) C13_PCMP(pt_le, <=) C13_PCMP(pt_gt, >) C13_PCMP(pt_ge, >=)
C13_PDIFF(pt_sub, -, K_SUB) C13_PQ(pt_add_pd, +, K_ADD) C13_QP(pt_add_dp, +, K_ADD) C13_PQ(pt_sub_pd, -, K_SUB)
C13_PASG(pt_addeq, +=, +, K_ADD) C13_PASG(pt_subeq, -=, -, K_SUB)
// numerically the same value (sign of zero ignored, NaN == NaN): the point operators are judged on value only
template <class A, class B, bool Int = std::is_integral<A>::value && std::is_integral<B>::value> struct Num;
template <class A, class B> struct Num<A, B, true> { static bool eq(A a, B b) { return (i128)a == (i128)b; } };
template <class A, class B> struct Num<A, B, false> { static bool eq(A a, B b) { return (long double)a == (long double)b || (is_nan(a) && is_nan(b)); } };
// point operators are judged where the raw operation is defined AND its result is a value of R
template <class R, bool I = std::is_integral<R>::value> struct PtOk { static bool ok(Kind, R, R) { return true; } };
template <class R> struct PtOk<R, true> {
    static bool ok(Kind k, R a, R b) {
        if (k == K_CMP) return true;
        if (!Def<R, R>::ok(k, a, b)) return false;
        const auto r = k == K_ADD ? a + b : a - b;   // the raw operator (defined: checked above), in the promoted type
        return (i128)r >= (i128)std::numeric_limits<R>::min() && (i128)r <= (i128)std::numeric_limits<R>::max();
    }
};

// ---- value alphabets (enumeration only; no expectations) ------------------------------------------------
template <class R> std::vector<R> vals_all() {   // every value of an 8/16-bit rep
    std::vector<R> v;
    for (i128 x = (i128)std::numeric_limits<R>::min(); x <= (i128)std::numeric_limits<R>::max(); ++x) v.push_back((R)x);
    return v;
}
template <class R> std::vector<R> vals_edge(int w) {   // radius-w windows around 0, min, max, min/2, max/2, +-2^k, +-3*2^k
    const i128 lo = (i128)std::numeric_limits<R>::min(), hi = (i128)std::numeric_limits<R>::max();
    std::vector<i128> anchors = {0, lo, hi, lo / 2, hi / 2};
    for (int k = 0; k <= 64; ++k) {
        anchors.push_back((i128)1 << k); anchors.push_back(-((i128)1 << k));
        if (k % 8 == 0) { anchors.push_back((i128)3 << k); anchors.push_back(-((i128)3 << k)); }
    }
    std::vector<i128> xs;
    for (i128 a : anchors) for (int d = -w; d <= w; ++d) { i128 x = a + d; if (x >= lo && x <= hi) xs.push_back(x); }
    std::sort(xs.begin(), xs.end());
    xs.erase(std::unique(xs.begin(), xs.end()), xs.end());
    std::vector<R> v;
    for (i128 x : xs) v.push_back((R)x);
    return v;
}
template <class R> struct FP;
template <> struct FP<float> { enum { EB = 8, FB = 23 };
    static float make(unsigned s, unsigned e, std::uint64_t f) { std::uint32_t b = (s << 31) | (e << 23) | (std::uint32_t)f; float x; std::memcpy(&x, &b, 4); return x; } };
template <> struct FP<double> { enum { EB = 11, FB = 52 };
    static double make(unsigned s, unsigned e, std::uint64_t f) { std::uint64_t b = ((std::uint64_t)s << 63) | ((std::uint64_t)e << 52) | f; double x; std::memcpy(&x, &b, 8); return x; } };
template <> struct FP<long double> { enum { EB = 15, FB = 63 };   // x87 extended: explicit integer bit set iff exponent != 0
    static long double make(unsigned s, unsigned e, std::uint64_t f) {
        unsigned char buf[16] = {0}; std::uint64_t m = f | (e ? (1ull << 63) : 0); std::uint16_t se = (std::uint16_t)((s << 15) | e);
        std::memcpy(buf, &m, 8); std::memcpy(buf + 8, &se, 2); long double x; std::memcpy(&x, buf, sizeof x); return x; } };
// fraction patterns: level 0 = {0, 1, quiet/half bit, all ones, 0101..}; level 1 adds 2, 3, ones-1, 1010.., single bits
template <class R> std::vector<std::uint64_t> fracs(int level) {
    const int FB = FP<R>::FB; const std::uint64_t ones = (1ull << FB) - 1, top = 1ull << (FB - 1);
    std::vector<std::uint64_t> f = {0, 1, top, ones, 0x5555555555555555ull & ones};
    if (level >= 1) {
        f.insert(f.end(), {2, 3, ones - 1, 0xAAAAAAAAAAAAAAAAull & ones, top | 1, top >> 1});
        const int step = FB > 60 ? 8 : 1;
        for (int i = 0; i < FB; i += step) { f.push_back(1ull << i); if (FB <= 60) f.push_back(ones ^ (1ull << i)); }
    }
    std::sort(f.begin(), f.end()); f.erase(std::unique(f.begin(), f.end()), f.end());
    return f;
}
template <class R> std::vector<unsigned> exps(int level) {
    const unsigned emax = (1u << FP<R>::EB) - 1, bias = emax >> 1, FB = FP<R>::FB;
    std::vector<unsigned> e;
    if (level >= 1) { for (unsigned x = 0; x <= emax; ++x) e.push_back(x); return e; }
    const long c[] = {0, 1, 2, (long)bias - 64, (long)bias - FB - 1, (long)bias - FB, (long)bias - 2, (long)bias - 1, bias, (long)bias + 1,
                      (long)bias + 7, (long)bias + 8, (long)bias + 15, (long)bias + 16, (long)bias + FB - 1, (long)bias + FB, (long)bias + FB + 1,
                      (long)bias + 31, (long)bias + 32, (long)bias + 63, (long)bias + 64, (long)emax - 2, (long)emax - 1, emax};
    for (long x : c) if (x >= 0 && x <= (long)emax) e.push_back((unsigned)x);
    std::sort(e.begin(), e.end()); e.erase(std::unique(e.begin(), e.end()), e.end());
    return e;
}
template <class R, class F> void each_fp(int level, F fn) {   // NaNs (quiet, signalling, payloads), +-inf, +-0, denormals included
    const std::vector<std::uint64_t> fr = fracs<R>(level); const std::vector<unsigned> ex = exps<R>(level);
    for (unsigned s = 0; s < 2; ++s) for (unsigned e : ex) for (std::uint64_t f : fr) fn(FP<R>::make(s, e, f));
}
template <class R> std::vector<R> vals_fp(int level) { std::vector<R> v; each_fp<R>(level, [&](R x) { v.push_back(x); }); return v; }

template <class R, bool I = std::is_integral<R>::value, int B = sizeof(R)> struct Alpha {   // floating
    static std::vector<R> pair() { return vals_fp<R>(0); }
    static std::vector<R> unary() { return vals_fp<R>(1); }
};
template <class R> struct Alpha<R, true, 1> { static std::vector<R> pair() { return vals_all<R>(); } static std::vector<R> unary() { return vals_all<R>(); } };
template <class R> struct Alpha<R, true, 2> { static std::vector<R> pair() { return vals_edge<R>(6); } static std::vector<R> unary() { return vals_all<R>(); } };
template <class R> struct Alpha<R, true, 4> { static std::vector<R> pair() { return vals_edge<R>(2); } static std::vector<R> unary() { return vals_edge<R>(512); } };
template <class R> struct Alpha<R, true, 8> { static std::vector<R> pair() { return vals_edge<R>(2); } static std::vector<R> unary() { return vals_edge<R>(512); } };
template <class R> const std::vector<R> &pair_vals() { static const std::vector<R> v = Alpha<R>::pair(); return v; }
template <class R> const std::vector<R> &unary_vals() { static const std::vector<R> v = Alpha<R>::unary(); return v; }

// ---- sweeps ----------------------------------------------------------------------------------------------
template <class Op, class Mk, class R>
void sweep_on(const char *unit, Mk mk, const std::vector<R> &av, const std::vector<R> &bv) {
    unsigned long long evals = 0, skipped = 0, bad = 0;
    bool have = false, varied = false;
    int shown = 0;
    typedef decltype(Op::raw(R{}, R{})) W;
    typedef decltype(Op::au(mk, R{}, R{})) G;
    W first{};
    for (R a : av) for (R b : bv) {
        if (!Def<R, R>::ok(Op::kind, a, b)) { ++skipped; continue; }
        const W want = Op::raw(a, b);
        const G got = Op::au(mk, a, b);
        ++evals;
        if (!have) { first = want; have = true; } else if (!varied && !Same<W, W>::eq(want, first)) varied = true;
        if (!Same<G, W>::eq(got, want)) {
            ++bad;
            if (shown++ < 3)
                std::printf("V {\"unit\":\"%s\",\"rep\":\"%s\",\"op\":\"%s\",\"a\":\"%s\",\"b\":\"%s\",\"ah\":\"%s\",\"bh\":\"%s\",\"got\":\"%s\",\"want\":\"%s\",\"got_t\":\"%s\",\"want_t\":\"%s\"}\n",
                            unit, TN<R>::n().c_str(), Op::name(), Str<R>::s(a).c_str(), Op::unary ? "" : Str<R>::s(b).c_str(),
                            Str<R>::h(a).c_str(), Op::unary ? "" : Str<R>::h(b).c_str(), Str<G>::h(got).c_str(), Str<W>::h(want).c_str(),
                            TN<G>::n().c_str(), TN<W>::n().c_str());
        }
    }
    std::printf("S {\"k\":\"op\",\"unit\":\"%s\",\"rep\":\"%s\",\"op\":\"%s\",\"evals\":%llu,\"skipped\":%llu,\"bad\":%llu,\"varied\":%d}\n",
                unit, TN<R>::n().c_str(), Op::name(), evals, skipped, bad, (int)varied);
}
// scalar operators with a scalar type S different from the rep R: the scalar alphabet deliberately contains values
// that do NOT survive a conversion to R (the raw operator works in the common type of R and S)
template <class S> std::vector<S> scalar_vals_int(i128 rlo, i128 rhi) {
    std::vector<i128> xs;
    const i128 lo = (i128)std::numeric_limits<S>::min(), hi = (i128)std::numeric_limits<S>::max();
    const i128 anchors[] = {0, rlo, rhi, rhi + 1, 2 * (rhi + 1), 3 * (rhi + 1) + 2, -(rhi + 1) * 2, 200, 1000, 40000, 100000, 3000000000LL,
                            ((i128)1 << 32) + 2, -(((i128)1 << 32) + 2), lo, hi};
    for (i128 a : anchors) for (int d = -3; d <= 3; ++d) { const i128 x = a + d; if (x >= lo && x <= hi) xs.push_back(x); }
    std::sort(xs.begin(), xs.end());
    xs.erase(std::unique(xs.begin(), xs.end()), xs.end());
    std::vector<S> v;
    for (i128 x : xs) v.push_back((S)x);
    return v;
}
template <class S> std::vector<S> scalar_vals_fp() {
    const S v[] = {S(1), S(-1), S(2), S(0.5), S(1.1L), S(-3.3L), S(1e-60L), S(1e60L), S(1) / S(3), S(7.25), S(1e-310L), S(65536.0000152587890625L)};
    return std::vector<S>(v, v + sizeof v / sizeof v[0]);
}
template <class R, class S, bool F = std::is_floating_point<S>::value> struct ScalarVals {
    static std::vector<S> get() { return scalar_vals_int<S>((i128)std::numeric_limits<R>::min(), (i128)std::numeric_limits<R>::max()); } };
template <class R, class S> struct ScalarVals<R, S, true> { static std::vector<S> get() { return scalar_vals_fp<S>(); } };
template <class R, class S, bool FR = std::is_floating_point<R>::value> struct DefS {
    static bool ok(Kind k, R a, S b) { return Def<R, S>::ok(k, a, b); } };
template <class R, class S> struct DefS<R, S, true> {   // floating: everything is defined except nothing (inf/NaN results compare as such)
    static bool ok(Kind, R, S) { return true; } };
// a trap inside the library (e.g. SIGFPE from dividing by a wrongly narrowed scalar) on operands whose raw operation
// is defined is a violation for those operands: report it as a V line and stop with a distinct exit code
static const char *volatile cur_unit = "", *volatile cur_rep = "", *volatile cur_op = "";
static volatile long double cur_a = 0, cur_b = 0;
extern "C" inline void c13_trap(int sig) {
    std::fflush(stdout);
    std::printf("V {\"unit\":\"%s\",\"rep\":\"%s\",\"op\":\"%s\",\"a\":\"%.21Lg\",\"b\":\"%.21Lg\",\"ah\":\"%.21Lg\",\"bh\":\"%.21Lg\",\"got\":\"trap-signal-%d\",\"want\":\"the raw result\",\"got_t\":\"\",\"want_t\":\"\"}\n",
                cur_unit, cur_rep, cur_op, (long double)cur_a, (long double)cur_b, (long double)cur_a, (long double)cur_b, sig);
    std::fflush(stdout);
    std::_Exit(86);
}
template <class Op, class R, class S, class Mk>
void sweep_scalar(const char *unit, Mk mk, const char *sname) {
    std::signal(SIGFPE, c13_trap);
    unsigned long long evals = 0, skipped = 0, bad = 0;
    int shown = 0;
    typedef decltype(Op::raw(R{}, S{})) W;
    typedef decltype(Op::au(mk, R{}, S{})) G;
    const std::vector<R> &av = pair_vals<R>();
    const std::vector<S> bv = ScalarVals<R, S>::get();
    static const std::string opn = std::string(Op::name()) + "@" + sname;
    static const std::string repn = TN<R>::n();
    cur_unit = unit; cur_rep = repn.c_str(); cur_op = opn.c_str();
    for (R a : av) for (S b : bv) {
        if (!DefS<R, S>::ok(Op::kind, a, b)) { ++skipped; continue; }
        const W want = Op::raw(a, b);
        cur_a = (long double)a; cur_b = (long double)b;
        const G got = Op::au(mk, a, b);
        ++evals;
        if (!std::is_same<G, W>::value || !Same<G, W>::eq(got, want)) {
            ++bad;
            if (shown++ < 3)
                std::printf("V {\"unit\":\"%s\",\"rep\":\"%s\",\"op\":\"%s\",\"a\":\"%s\",\"b\":\"%s\",\"ah\":\"%s\",\"bh\":\"%s\",\"got\":\"%s\",\"want\":\"%s\",\"got_t\":\"%s\",\"want_t\":\"%s\"}\n",
                            unit, TN<R>::n().c_str(), opn.c_str(), Str<R>::s(a).c_str(), Str<S>::s(b).c_str(),
                            Str<R>::h(a).c_str(), Str<S>::h(b).c_str(), Str<G>::h(got).c_str(), Str<W>::h(want).c_str(),
                            TN<G>::n().c_str(), TN<W>::n().c_str());
        }
    }
    std::printf("S {\"k\":\"op\",\"unit\":\"%s\",\"rep\":\"%s\",\"op\":\"%s\",\"evals\":%llu,\"skipped\":%llu,\"bad\":%llu,\"varied\":1}\n",
                unit, TN<R>::n().c_str(), opn.c_str(), evals, skipped, bad);
}
template <class Op, class R, class Mk> void sweep(const char *unit, Mk mk) {
    if (Op::unary) sweep_on<Op, Mk, R>(unit, mk, unary_vals<R>(), std::vector<R>(1, R{}));
    else sweep_on<Op, Mk, R>(unit, mk, pair_vals<R>(), pair_vals<R>());
}

// the point operators: value only, on operand pairs whose raw result is defined and is a value of R
template <class Op, class R, class Mk> void sweep_pt(const char *unit, Mk mk) {
    unsigned long long evals = 0, skipped = 0, bad = 0;
    bool have = false, varied = false;
    int shown = 0;
    typedef decltype(Op::raw(R{}, R{})) W;
    typedef decltype(Op::au(mk, R{}, R{})) G;
    W first{};
    const std::vector<R> &av = pair_vals<R>();
    for (R a : av) for (R b : av) {
        if (!PtOk<R>::ok(Op::kind, a, b)) { ++skipped; continue; }
        const W want = Op::raw(a, b);
        const G got = Op::au(mk, a, b);
        ++evals;
        if (!have) { first = want; have = true; } else if (!varied && !Num<W, W>::eq(want, first)) varied = true;
        if (!Num<G, W>::eq(got, want)) {
            ++bad;
            if (shown++ < 3)
                std::printf("V {\"unit\":\"%s\",\"rep\":\"%s\",\"op\":\"%s\",\"a\":\"%s\",\"b\":\"%s\",\"ah\":\"%s\",\"bh\":\"%s\",\"got\":\"%s\",\"want\":\"%s\",\"got_t\":\"%s\",\"want_t\":\"%s\"}\n",
                            unit, TN<R>::n().c_str(), Op::name(), Str<R>::s(a).c_str(), Str<R>::s(b).c_str(),
                            Str<R>::h(a).c_str(), Str<R>::h(b).c_str(), Str<G>::h(got).c_str(), Str<W>::h(want).c_str(),
                            TN<G>::n().c_str(), TN<W>::n().c_str());
        }
    }
    std::printf("S {\"k\":\"pt\",\"unit\":\"%s\",\"rep\":\"%s\",\"op\":\"%s\",\"evals\":%llu,\"skipped\":%llu,\"bad\":%llu,\"varied\":%d}\n",
                unit, TN<R>::n().c_str(), Op::name(), evals, skipped, bad, (int)varied);
}

// unit(x).in(unit) must return x bit-for-bit.  Spellings of the construction side: maker call (prvalue and const
// lvalue), au::make_quantity<U>(x), x * unit symbol (where the library defines a symbol); of the read side:
// .in(maker), .in(U{}), .in<R>(maker) (explicit-rep overload), .data_in(maker), .in(symbol)
struct NoSym {};
template <class Mk, class R> inline bool sym_rt(Mk, NoSym, R, R &) { return true; }
template <class Mk, class Sy, class R> inline bool sym_rt(Mk mk, Sy sy, R x, R &out) {
    const auto q = x * sy;
    const R t = q.in(sy);
    if (!bits_eq(x, t)) { out = t; return false; }
    const R t2 = mk(x).in(sy);
    if (!bits_eq(x, t2)) { out = t2; return false; }
    return true;
}
template <class Mk, class Sy, class R> struct RT {
    const char *unit; Mk mk; Sy sy; unsigned long long evals = 0, bad = 0; int shown = 0; bool quiet = false; std::string last;
    void fail(R x, R got) {
        ++bad;
        last = Str<R>::s(got);
        if (!quiet && shown++ < 3)
            std::printf("V {\"unit\":\"%s\",\"rep\":\"%s\",\"op\":\"roundtrip\",\"a\":\"%s\",\"b\":\"\",\"ah\":\"%s\",\"bh\":\"\",\"got\":\"%s\",\"want\":\"%s\",\"got_t\":\"%s\",\"want_t\":\"%s\"}\n",
                        unit, TN<R>::n().c_str(), Str<R>::s(x).c_str(), Str<R>::h(x).c_str(),
                        Str<R>::s(got).c_str(), Str<R>::s(x).c_str(), TN<R>::n().c_str(), TN<R>::n().c_str());
    }
    void one(R x) {
        typedef typename Mk::Unit U;
        ++evals;
        const auto q = mk(x);
        const R y0 = mk(x).in(mk);            if (!bits_eq(x, y0)) return fail(x, y0);
        const R y1 = mk(x).in(U{});           if (!bits_eq(x, y1)) return fail(x, y1);
        const R y2 = q.in(mk);                if (!bits_eq(x, y2)) return fail(x, y2);
        const R y3 = q.template in<R>(mk);    if (!bits_eq(x, y3)) return fail(x, y3);
        const R y4 = q.data_in(mk);           if (!bits_eq(x, y4)) return fail(x, y4);
        const R y5 = au::make_quantity<U>(x).in(mk);   if (!bits_eq(x, y5)) return fail(x, y5);
        R y6 = x;                             if (!sym_rt(mk, sy, x, y6)) return fail(x, y6);
    }
    void done() { std::printf("S {\"k\":\"rt\",\"unit\":\"%s\",\"rep\":\"%s\",\"op\":\"roundtrip\",\"evals\":%llu,\"skipped\":0,\"bad\":%llu,\"varied\":1}\n",
                              unit, TN<R>::n().c_str(), evals, bad); }
};
template <class Mk, class Sy, class R, bool I = std::is_integral<R>::value> struct RTAll {
    static void run(const char *unit, Mk mk, Sy sy) { RT<Mk, Sy, R> rt{unit, mk, sy}; each_fp<R>(1, [&](R x) { rt.one(x); }); rt.done(); } };
template <class Mk, class Sy, class R> struct RTAll<Mk, Sy, R, true> {
    static void run(const char *unit, Mk mk, Sy sy) { RT<Mk, Sy, R> rt{unit, mk, sy}; for (R x : (sizeof(R) <= 2 ? vals_all<R>() : vals_edge<R>(4096))) rt.one(x); rt.done(); } };
template <class R, class Mk, class Sy> void roundtrip(const char *unit, Mk mk, Sy sy) { RTAll<Mk, Sy, R>::run(unit, mk, sy); }

// ptmaker(x).in(ptmaker): QuantityPoint::in(u) adds the origin displacement (Zero -> 0 for the same unit), so a
// negative zero comes back as +0 and a signalling NaN comes back quiet.  The statement's clause is spelled
// unit(x).in(unit) (the quantity maker): those two families are counted as not judged; anything else must be exact.
template <class R> inline R with_quiet(R x) {
    unsigned char buf[16] = {0};
    std::memcpy(buf, &x, vbytes<R>());
    const int bit = FP<R>::FB - 1;
    buf[bit / 8] = (unsigned char)(buf[bit / 8] | (1u << (bit % 8)));
    std::memcpy(&x, buf, vbytes<R>());
    return x;
}
template <class R, bool I = std::is_integral<R>::value> struct Benign {
    static bool ok(R x, R y) {
        if (x == 0 && y == 0 && std::signbit(x) && !std::signbit(y)) return true;            // -0 -> +0
        if (is_nan(x) && !bits_eq(x, with_quiet(x)) && bits_eq(y, with_quiet(x))) return true;   // sNaN -> the same NaN, quiet
        return false;
    }
};
template <class R> struct Benign<R, true> { static bool ok(R, R) { return false; } };
template <class Pm, class R> struct RTP {
    const char *unit; Pm pm; unsigned long long evals = 0, bad = 0, notjudged = 0; int shown = 0; bool quiet = false; std::string last;
    void one(R x) {
        ++evals;
        const auto p = pm(x);
        const R y = p.in(pm);
        if (bits_eq(x, y)) return;
        if (Benign<R>::ok(x, y)) { ++notjudged; return; }
        ++bad;
        last = Str<R>::s(y);
        if (!quiet && shown++ < 3)
            std::printf("V {\"unit\":\"%s\",\"rep\":\"%s\",\"op\":\"roundtrip_pt\",\"a\":\"%s\",\"b\":\"\",\"ah\":\"%s\",\"bh\":\"\",\"got\":\"%s\",\"want\":\"%s\",\"got_t\":\"%s\",\"want_t\":\"%s\"}\n",
                        unit, TN<R>::n().c_str(), Str<R>::s(x).c_str(), Str<R>::h(x).c_str(),
                        Str<R>::s(y).c_str(), Str<R>::s(x).c_str(), TN<R>::n().c_str(), TN<R>::n().c_str());
    }
    void done() { std::printf("S {\"k\":\"rtp\",\"unit\":\"%s\",\"rep\":\"%s\",\"op\":\"roundtrip_pt\",\"evals\":%llu,\"skipped\":0,\"bad\":%llu,\"notjudged\":%llu,\"varied\":1}\n",
                              unit, TN<R>::n().c_str(), evals, bad, notjudged); }
};
template <class Pm, class R, bool I = std::is_integral<R>::value> struct RTPAll {
    static void run(const char *unit, Pm pm) { RTP<Pm, R> rt{unit, pm}; each_fp<R>(1, [&](R x) { rt.one(x); }); rt.done(); } };
template <class Pm, class R> struct RTPAll<Pm, R, true> {
    static void run(const char *unit, Pm pm) { RTP<Pm, R> rt{unit, pm}; for (R x : (sizeof(R) <= 2 ? vals_all<R>() : vals_edge<R>(4096))) rt.one(x); rt.done(); } };
template <class R, class Pm> void roundtrip_pt(const char *unit, Pm pm) { RTPAll<Pm, R>::run(unit, pm); }

// every bit pattern of float in [lo, hi)
template <class Mk, class Sy> void roundtrip_f32(const char *unit, Mk mk, Sy sy, unsigned long long lo, unsigned long long hi) {
    RT<Mk, Sy, float> rt{unit, mk, sy};
    for (unsigned long long b = lo; b < hi; ++b) { const std::uint32_t u = (std::uint32_t)b; float x; std::memcpy(&x, &u, 4); rt.one(x); }
    rt.done();
}
template <class Pm> void roundtrip_pt_f32(const char *unit, Pm pm, unsigned long long lo, unsigned long long hi) {
    RTP<Pm, float> rt{unit, pm};
    for (unsigned long long b = lo; b < hi; ++b) { const std::uint32_t u = (std::uint32_t)b; float x; std::memcpy(&x, &u, 4); rt.one(x); }
    rt.done();
}
}  // namespace c13
'''
