// R3-C18-1: IToA<INT64_MIN> does not compile (g++ / clang++, every standard):  g++ -std=c++14 -I/repo/au/code R3-C18-1.cc
#include "au/utility/string_constant.hh"
#include <cstdio>
#include <cstdint>
int main() {
    std::printf("'%s' %d\n", au::detail::IToA<INT64_MIN>::value.c_str(), (int)au::detail::IToA<INT64_MIN>::value.size());
}
