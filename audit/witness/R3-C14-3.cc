// R3-C14-3 (last line of output: int_pow<0> of a dimensioned quantity) -- same program as R3-C14-2.cc
// g++ -std=c++14 -I/repo/au/code R3-C14-2.cc && ./a.out     (exit 1 = defect present)
#include <cstdio>
#include <type_traits>
#include "au/au.hh"
#include "au/math.hh"
#include "au/units/hertz.hh"
#include "au/units/meters.hh"
#include "au/units/seconds.hh"
#include "au/units/unos.hh"
using namespace au;
template <class T> struct IsQ : std::false_type {};
template <class U, class R> struct IsQ<Quantity<U, R>> : std::true_type {};
template <class T> struct UnitOf { using type = void; };
template <class U, class R> struct UnitOf<Quantity<U, R>> { using type = U; };
#define SHOW(e) (std::printf("%-58s is_quantity=%d unit_is_unitless=%d\n", #e, (int)IsQ<decltype(e)>::value, \
                             (int)IsUnitlessUnit<typename UnitOf<decltype(e)>::type>::value), IsQ<decltype(e)>::value)
int main() {
    using HzS = decltype(Hertz{} * Seconds{});
    int bad = 0;
    SHOW(unos(3) * unos(3));                         // raw number: the reference behaviour
    bad += SHOW(int_pow<2>(unos(3)));                // R3-C14-2
    bad += SHOW(int_pow<-1>(make_quantity<HzS>(4.0)));
    bad += SHOW(sqrt(unos(4.0)));
    bad += SHOW(cbrt(make_quantity<HzS>(8.0)));
    bad += SHOW(int_pow<0>(meters(3)));              // R3-C14-3 (exponent 0 of a dimensioned quantity)
    return bad ? 1 : 0;
}
