// R3-C14-4: scalar / quantity does not collapse to a raw number when the quantity's unit is the unitless unit.
// g++ -std=c++14 -I/repo/au/code R3-C14-4.cc && ./a.out     (exit 1 = defect present)
#include <cstdio>
#include <type_traits>
#include "au/au.hh"
#include "au/units/hertz.hh"
#include "au/units/seconds.hh"
#include "au/units/unos.hh"
using namespace au;
template <class T> struct IsQ : std::false_type {};
template <class U, class R> struct IsQ<Quantity<U, R>> : std::true_type {};
int main() {
    auto a = 1.0 / unos(4.0);
    auto b = 6 / unos(4);
    auto c = 1.0 / make_quantity<decltype(Hertz{} * Seconds{})>(4.0);
    auto ref = unos(1.0) / unos(4.0);   // quantity / quantity collapses: double
    std::printf("unos(1.0)/unos(4.0) is_quantity=%d\n1.0/unos(4.0) is_quantity=%d\n6/unos(4) is_quantity=%d\n1.0/(Hz*s)(4.0) is_quantity=%d\n",
                (int)IsQ<decltype(ref)>::value, (int)IsQ<decltype(a)>::value, (int)IsQ<decltype(b)>::value, (int)IsQ<decltype(c)>::value);
    return (IsQ<decltype(a)>::value || IsQ<decltype(b)>::value || IsQ<decltype(c)>::value) ? 1 : 0;
}
