// R3-C14-1b: scalar / unblock_int_div(unitless quantity) does not collapse to a raw number.
// g++ -std=c++14 -I/repo/au/code R3-C14-1b.cc && ./a.out     (exit 1 = defect present)
#include <cstdio>
#include <type_traits>
#include "au/au.hh"
#include "au/units/unos.hh"
using namespace au;
template <class T> struct IsQ : std::false_type {};
template <class U, class R> struct IsQ<Quantity<U, R>> : std::true_type {};
int main() {
    auto ref = unos(6) / unos(4);                   // int: quantity / quantity collapses
    auto s_over = 6 / unblock_int_div(unos(4));     // 1/unitless -> must be a raw number too
    std::printf("unos(6)/unos(4)            is_quantity=%d\n6/unblock_int_div(unos(4)) is_quantity=%d\n", (int)IsQ<decltype(ref)>::value, (int)IsQ<decltype(s_over)>::value);
    return IsQ<decltype(s_over)>::value ? 1 : 0;
}
