// R3-C11-1a: representable_in<T>(base^(num/den)) is false (and get_value<T> a hard error) for values far
// inside T's range, because detail::root() gives up when the first bisection midpoint overflows.
//   g++ -std=c++14 -I/repo/au/code R3-C11-1a.cc -o w && ./w      (exit 1 = defect present)
#include <cstdio>
#include "au/magnitude.hh"
using namespace au;
int main() {
    // 2^(16383/2) = 2^8191.5  (LDBL_MAX ~ 2^16384);  2^(5116/5) = 2^1023.2 (DBL_MAX ~ 2^1024)
    constexpr bool a = representable_in<long double>(root<2>(pow<16383>(mag<2>())));
    constexpr bool b = representable_in<double>(root<5>(pow<5116>(mag<2>())));
    constexpr bool c = representable_in<long double>(root<2>(pow<8191>(mag<2>())));   // control: works
    std::printf("representable_in<long double>(2^(16383/2)) = %d (exact value 2^8191.5, must be 1)\n", a);
    std::printf("representable_in<double>(2^(5116/5))        = %d (exact value 2^1023.2, must be 1)\n", b);
    std::printf("representable_in<long double>(2^(8191/2))  = %d (control)\n", c);
    // get_value<long double>(root<2>(pow<16383>(mag<2>())));   // hard error: "Value outside range of destination type"
    return (a && b) ? 0 : 1;
}
