// R3-C11-1b: representable_in<long double>(2^(20001/2)) is false although 2^10000.5 < LDBL_MAX ~ 2^16384: base_power_value
// forms 2^20001 in long double before taking the square root, and that power alone overflows (F8 family).
//   g++ -std=c++14 -I/repo/au/code R3-C11-1b.cc -o w && ./w      (exit 1 = defect present)
#include <cstdio>
#include "au/magnitude.hh"
using namespace au;
int main() {
    constexpr bool a = representable_in<long double>(root<2>(pow<20001>(mag<2>())));   // 2^10000.5
    constexpr bool b = representable_in<long double>(root<3>(pow<49151>(mag<2>())));   // 2^16383.67
    constexpr bool c = representable_in<long double>(root<2>(pow<-32763>(mag<2>())));  // 2^-16381.5 (normal)
    std::printf("2^(20001/2): %d  2^(49151/3): %d  2^(-32763/2): %d   (all must be 1)\n", a, b, c);
    return (a && b && c) ? 0 : 1;
}
