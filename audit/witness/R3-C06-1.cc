// R3-C06-1: the implicit-conversion predicate says "yes" for every floating-point target, but when the
// unit ratio is not representable in the floating type the conversion is computed in, every construct
// that the statement calls equivalent is a hard error (static_assert "Value outside range of
// destination type" inside get_value<float>), and under g++ even *asking* through overload
// resolution in an unevaluated operand is a hard error.
//
//   g++ -std=c++14 -fsyntax-only -I/repo/au/code R3-C06-1.cc            -> compiles (the predicate answers true)
//   g++ -std=c++14 -fsyntax-only -I/repo/au/code -DCTOR   R3-C06-1.cc   -> hard error (implicit constructor)
//   g++ -std=c++14 -fsyntax-only -I/repo/au/code -DAS     R3-C06-1.cc   -> hard error (unit-only .as)
//   g++ -std=c++14 -fsyntax-only -I/repo/au/code -DCMP    R3-C06-1.cc   -> hard error (mixed-unit <)
//   g++ -std=c++14 -fsyntax-only -I/repo/au/code -DPICK   R3-C06-1.cc   -> hard error under g++ (sizeof(f(declval<Q1>()))), fine under clang++
//   g++ -std=c++14 -fsyntax-only -I/repo/au/code -DDIV    R3-C06-1.cc   -> hard error (factor 1/10^40: divides by get_value<float>(10^40))
#include <type_traits>
#include <utility>

#include "au/au.hh"
#include "au/units/meters.hh"

using namespace au;
using Big = decltype(Meters{} * pow<40>(mag<10>()));    // 10^40 m: not representable in float (max 3.4e38)
using Tiny = decltype(Meters{} / pow<40>(mag<10>()));
using Q1 = Quantity<Big, float>;
using Q2 = Quantity<Meters, float>;

static_assert(std::is_convertible<Q1, Q2>::value, "the documented predicate: floating target => implicit");
static_assert(std::is_convertible<Quantity<Big, int>, Q2>::value, "also from an integral source");
static_assert(std::is_convertible<Quantity<Tiny, float>, Q2>::value, "and for the reciprocal factor");

#ifdef CTOR
Q2 f(Q1 q) { return q; }
#endif
#ifdef AS
auto g(Q1 q) { return q.as(Meters{}); }
#endif
#ifdef CMP
bool h(Q1 a, Q2 b) { return a < b; }
#endif
#ifdef PICK
char pick(Q2);
long pick(...);
static_assert(sizeof(pick(std::declval<Q1>())) == 1, "overload resolution selects the converting constructor");
#endif
#ifdef DIV
Q2 d(Quantity<Tiny, float> q) { return q; }
#endif

int main() {}
