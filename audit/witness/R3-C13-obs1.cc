// R3-C13-obs1 (observation, not a staged finding)
//
// QuantityPoint::in(u) (au/code/au/quantity_point.hh) computes
//     rep_cast<Rep>(x_ + rep_cast<Rep>(OriginDisplacement<...>::value())).in(...)
// even when `u` is the point's own unit: the displacement is `Zero`, which becomes Quantity{0}, and the
// addition `x + 0` is carried out.  For floating reps this is not the identity on bit patterns:
//     -0.0f + 0.0f == +0.0f        (sign of zero lost)
//     sNaN  + 0.0f == qNaN         (signalling NaN quieted)
// Quantity::in(u) has a same-unit shortcut (`return value_`) and is bit-exact.
//
// C13's statement spells the round trip `unit(x).in(unit)` (the quantity maker); QuantityPoint is named only
// in its layout/default-construction clause, so this is recorded as an observation: C13 counts exactly these two
// input families in `point_roundtrip_bitdiff_not_judged`.
//
// Build:  g++ -std=c++14 -I/repo/au/code R3-C13-obs1.cc -o obs1 && ./obs1
// Output on the unchanged tree (g++ 12 / clang++ 14, -O0 and -O2):
//     point    -0.0f : 80000000 -> 00000000
//     point    sNaN  : 7fa00001 -> 7fe00001
//     quantity -0.0f : 80000000 -> 80000000
//     quantity sNaN  : 7fa00001 -> 7fa00001
#include <cstdint>
#include <cstdio>
#include <cstring>

#include "au/au.hh"
#include "au/units/kelvins.hh"

static float from_bits(std::uint32_t b) {
    float x;
    std::memcpy(&x, &b, 4);
    return x;
}
static std::uint32_t bits(float x) {
    std::uint32_t b;
    std::memcpy(&b, &x, 4);
    return b;
}

int main() {
    const std::uint32_t in[] = {0x80000000u, 0x7fa00001u};
    const char *name[] = {"-0.0f", "sNaN "};
    int diffs = 0;
    for (int i = 0; i < 2; ++i) {
        const float x = from_bits(in[i]);
        const float y = au::kelvins_pt(x).in(au::kelvins_pt);
        std::printf("point    %s : %08x -> %08x\n", name[i], bits(x), bits(y));
        diffs += bits(x) != bits(y);
    }
    for (int i = 0; i < 2; ++i) {
        const float x = from_bits(in[i]);
        const float y = au::kelvins(x).in(au::kelvins);
        std::printf("quantity %s : %08x -> %08x\n", name[i], bits(x), bits(y));
    }
    return diffs ? 1 : 0;
}
