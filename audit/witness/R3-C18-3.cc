// R3-C18-3: prefix symbol + label coincides with the label of a different unit.
//   g++ -std=c++14 -I/repo/au/code R3-C18-3.cc && ./a.out
#include <cstdio>
#include <cstring>
#include "au/au.hh"
#include "au/units/candelas.hh"
#include "au/units/days.hh"
#include "au/units/inches.hh"
#include "au/units/meters.hh"
#include "au/units/miles.hh"
#include "au/units/minutes.hh"
#include "au/units/nautical_miles.hh"
using namespace au;
template <typename A, typename B> int same(A a, B b, const char *what) {
    const bool s = !std::strcmp(unit_label(a), unit_label(b));
    std::printf("%-34s '%s' vs '%s'%s\n", what, unit_label(a), unit_label(b), s ? "   <-- same label, different dimension/magnitude" : "");
    return s;
}
int main() {
    int n = 0;
    n += same(Milli<Inches>{}, Minutes{}, "Milli<Inches> / Minutes");
    n += same(Centi<Days>{}, Candelas{}, "Centi<Days> / Candelas");
    n += same(Nano<Miles>{}, NauticalMiles{}, "Nano<Miles> / NauticalMiles");
    n += same(Milli<UnitProductT<>>{}, Meters{}, "Milli<unitless> / Meters");
    std::printf(n ? "FAIL: %d coincidences\n" : "PASS\n", n);
    return n != 0;
}
