// R3-C20-1: links under -std=c++17/c++20, "undefined reference to au::Quantity<au::Meters, int>::unit" (and the two makers) under -std=c++14:
//   for s in c++14 c++17 c++20; do g++ -std=$s -I/repo/au/code R3-C20-1.cc -o w && ./w; done     (clang++ alike)
#include "au/au.hh"
#include "au/units/meters.hh"
#include <cstdio>
#include <algorithm>
template <typename T> const T &ref(const T &x) { return x; }
int main() {
    auto a = au::meters(7);
    const auto &u = a.unit;   // odr-use Quantity::unit
    const auto &mu = au::meters.unit;  // QuantityMaker::unit
    const auto &pu = au::meters_pt.unit;  // QuantityPointMaker::unit
    const auto p = au::meters_pt(1);
    const auto &ppu = p.unit;             // QuantityPoint::unit
    std::printf("%s %s %s %s %d\n", au::unit_label(u), au::unit_label(mu), au::unit_label(pu), au::unit_label(ppu),
                (int)(&ref(u) != nullptr && &ref(mu) != nullptr && &ref(pu) != nullptr && &ref(ppu) != nullptr));
    return 0;
}
