// R3-C11-2 (mirror image of F8): 3^10000 / 2^16384 = 2^-534.4 is judged unrepresentable in double and long double.
//   g++ -std=c++14 -I/repo/au/code R3-C11-2.cc -o w && ./w      (exit 1 = defect present)
#include <cstdio>
#include "au/magnitude.hh"
using namespace au;
int main() {
    constexpr auto m = pow<10000>(mag<3>()) / pow<16384>(mag<2>());
    constexpr bool d = representable_in<double>(m), l = representable_in<long double>(m);
    std::printf("representable_in<double>(3^10000/2^16384) = %d, <long double> = %d (exact value ~5.6e-161, must be 1 1)\n", d, l);
    return (d && l) ? 0 : 1;
}
