// R3-C14-1a: Quantity / unblock_int_div(x) never collapses to a raw number when the units cancel.
// g++ -std=c++14 -I/repo/au/code R3-C14-1a.cc && ./a.out     (exit 1 = defect present)
#include <cstdio>
#include <type_traits>
#include "au/au.hh"
#include "au/units/meters.hh"
#include "au/units/unos.hh"
using namespace au;
template <class T> struct IsQ : std::false_type {};
template <class U, class R> struct IsQ<Quantity<U, R>> : std::true_type {};
int main() {
    auto direct = meters(6) / meters(4);                        // int (units cancel -> raw number)
    auto unblk = meters(6) / unblock_int_div(meters(4));        // must be int as well
    auto unblk_f = meters(6.0) / unblock_int_div(meters(4.0));  // "no-op" for floating reps, must be double
    auto over_s = unos(6) / unblock_int_div(4);
    std::printf("meters(6)/meters(4)                    is_quantity=%d\n", (int)IsQ<decltype(direct)>::value);
    std::printf("meters(6)/unblock_int_div(meters(4))   is_quantity=%d\n", (int)IsQ<decltype(unblk)>::value);
    std::printf("meters(6.)/unblock_int_div(meters(4.)) is_quantity=%d\n", (int)IsQ<decltype(unblk_f)>::value);
    std::printf("unos(6)/unblock_int_div(4)             is_quantity=%d\n", (int)IsQ<decltype(over_s)>::value);
    return (IsQ<decltype(unblk)>::value || IsQ<decltype(unblk_f)>::value || IsQ<decltype(over_s)>::value) ? 1 : 0;
}
