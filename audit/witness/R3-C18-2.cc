// R3-C18-2: two units of different magnitude print the same label.
//   g++ -std=c++14 -I/repo/au/code R3-C18-2.cc && ./a.out      (same under clang++ / c++17 / c++20)
// Kilo<m^2> is 10^3 m^2, (km)^2 is 10^6 m^2; both print "km^2".  Kilo<s^-1> is 10^3 /s, (ks)^-1 is 10^-3 /s; both print "ks^(-1)".
#include <cstdio>
#include <cstring>
#include "au/au.hh"
#include "au/units/meters.hh"
#include "au/units/seconds.hh"
using namespace au;
int main() {
    using KiloOfSquare = Kilo<decltype(pow<2>(Meters{}))>;
    using SquareOfKilo = decltype(pow<2>(Kilo<Meters>{}));
    using KiloOfInv = Kilo<decltype(pow<-1>(Seconds{}))>;
    using InvOfKilo = decltype(pow<-1>(Kilo<Seconds>{}));
    static_assert(unit_ratio(SquareOfKilo{}, KiloOfSquare{}) == mag<1000>(), "the two units differ by a factor 1000");
    static_assert(unit_ratio(KiloOfInv{}, InvOfKilo{}) == mag<1000000>(), "the two units differ by a factor 10^6");
    std::printf("Kilo<m^2>   : '%s'\n(km)^2      : '%s'\n", unit_label(KiloOfSquare{}), unit_label(SquareOfKilo{}));
    std::printf("Kilo<s^-1>  : '%s'\n(ks)^-1     : '%s'\n", unit_label(KiloOfInv{}), unit_label(InvOfKilo{}));
    const bool same = !std::strcmp(unit_label(KiloOfSquare{}), unit_label(SquareOfKilo{})) || !std::strcmp(unit_label(KiloOfInv{}), unit_label(InvOfKilo{}));
    std::printf(same ? "FAIL: different units, same label\n" : "PASS\n");
    return same ? 1 : 0;
}
