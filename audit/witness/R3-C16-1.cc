// R3-C16-1: can_store_value_in<float>(u) says true, yet as<float>(u) / in<float>(u) / implicit conversion do not compile.
//   g++ -std=c++14 -I/repo/au/code R3-C16-1.cc -o w && ./w              -> prints can_store_value_in = 1
//   g++ -std=c++14 -I/repo/au/code -DUSE_IT R3-C16-1.cc                 -> hard error in get_value<float>(10^44)
#include <cstdio>
#include "au/au.hh"
#include "au/units/meters.hh"
using namespace au;
constexpr auto tiny = make_constant(Meters{} * pow<-46>(mag<10>()));   // 10^-46 m
using Target = decltype(Meters{} * pow<-2>(mag<10>()));                // 10^-2 m  -> exact ratio 10^-44 (a float denormal)
int main() {
    constexpr bool can = decltype(tiny)::can_store_value_in<float>(Target{});
    std::printf("can_store_value_in<float> = %d, representable_in<float>(10^-44) = %d\n", can,
                representable_in<float>(pow<-44>(mag<10>())));
#ifdef USE_IT
    constexpr auto q = tiny.as<float>(Target{});        // error: static assertion failed: Value outside range of destination type
    constexpr float v = tiny.in<float>(Target{});       // same
    Quantity<Target, float> q2 = tiny;                  // same
    std::printf("%a %a %a\n", q.in(Target{}), v, q2.in(Target{}));
#endif
    return can ? 1 : 0;   // 1 = the inconsistency is present (the uses above do not compile)
}
