#!/bin/bash
# usage: tools/seedN_all.sh <round number> <suffix letter> C01 C02 ...   -- evaluates /tmp/mut<N>out-Cxx as seeded/Cxx<suffix>
n="$1"; suf="$2"; shift; shift
for p in "$@"; do
  [ -f /tmp/mut${n}out-$p/patch.diff ] || { echo "== $p: no patch yet"; continue; }
  tools/seed_eval2.sh ${p}${suf} /tmp/mut${n}out-$p "$p" > build/seed${n}_$p.log 2>&1
  echo "== $p: $(grep -c '^VIOLATION' build/seed${n}_$p.log) VIOLATION lines; tests: $(grep -m1 'tests passed' build/seed${n}_$p.log); $(grep -E '^\[C|INFRA' build/seed${n}_$p.log | cut -c1-80)"
done
