#!/usr/bin/env python3
"""usage: tools/seed_table.py C02f C05f ...  -- prints the DESIGN.md table rows for the given seeded/<id>/meta.json"""
import json, sys
print("| seed | change (one line) | needs | caught by | first pass |\n|---|---|---|---|---|")
for sid in sys.argv[1:]:
    m = json.load(open(f"/verif/seeded/{sid}/meta.json"))
    c = m.get("confirmed_by_lead", {})
    cl = lambda s: " ".join(str(s).replace("|", "/").split())
    print(f"| {sid} | {cl(m.get('summary',''))[:330]} | {cl(m.get('needs',''))[:260]} | {', '.join(c.get('caught_by', [])) or '-'} | {cl(c.get('note',''))} |")
