#!/bin/bash
# usage: tools/seed_eval2.sh <seed id, e.g. C01b> <out dir> "<checks>"  -- like seed_eval.sh for further rounds
set -u
id="$1"; out="$2"; checks="$3"
[ -f $out/patch.diff ] || { echo "no patch for $id"; exit 2; }
d=/var/tmp/au-seed-$id-$$
rm -rf $d; rsync -a --exclude _build --exclude .git /repo/ $d/
(cd $d && patch -p1 --no-backup-if-mismatch < $out/patch.diff) || { echo "PATCH DOES NOT APPLY"; rm -rf $d; exit 3; }
echo "--- building test suite with the change"
(cd $d && cmake -S . -B _build -G Ninja -DFETCHCONTENT_SOURCE_DIR_GOOGLETEST=/usr/src/googletest -DFETCHCONTENT_FULLY_DISCONNECTED=ON >/dev/null 2>&1 && cmake --build _build -j${SEED_JOBS:-16} 2>&1 | tail -1 && ctest --test-dir _build -j8 2>&1 | tail -3 | head -1)
rm -rf $d/_build
echo "--- demos (every demo*.cc compiled with g++ -std=c++14 against both trees)"
for f in $out/demo*.cc; do
  for tree in $d /repo; do
    if g++ -std=c++14 -I $tree/au/code $f -o /var/tmp/demo-$id-$$ 2>/var/tmp/demo-$id-$$.err; then /var/tmp/demo-$id-$$ > /var/tmp/demo-$id-$$.out 2>&1; rc=$?; echo "$(basename $f) tree=$([ $tree = /repo ] && echo UNMODIFIED || echo CHANGED): compiled, exit=$rc :: $(tail -1 /var/tmp/demo-$id-$$.out | cut -c1-120)"; else echo "$(basename $f) tree=$([ $tree = /repo ] && echo UNMODIFIED || echo CHANGED): DOES NOT COMPILE :: $(grep -m1 error /var/tmp/demo-$id-$$.err | cut -c1-160)"; fi
  done
done
rm -f /var/tmp/demo-$id-$$*
python3 -c "
import json; m=json.load(open('$out/meta.json')); print('summary:', m.get('summary','')[:400]); print('needs:', m.get('needs','')[:300])"
echo "--- my checks on the changed tree"
for c in $checks; do
  VERIF_REPO=$d /verif/bin/check $c --tier quick 2>&1 | grep -E "^VIOLATION|^\[C|INFRA|Traceback" | cut -c1-200 | head -4
done
mkdir -p /verif/seeded/$id; cp $out/patch.diff $out/meta.json /verif/seeded/$id/; cp $out/*.cc $out/*.sh /verif/seeded/$id/ 2>/dev/null
rm -rf $d
