#!/bin/bash
# usage: tools/seed3_all.sh C01 C02 ...   -- evaluates round-3 seeds /tmp/mut3out-Cxx as seeded/Cxxc, one after the other
for p in "$@"; do
  [ -f /tmp/mut3out-$p/patch.diff ] || { echo "== $p: no patch yet"; continue; }
  tools/seed_eval2.sh ${p}c /tmp/mut3out-$p "$p" > build/seed3_$p.log 2>&1
  echo "== $p: $(grep -c '^VIOLATION' build/seed3_$p.log) VIOLATION lines; tests: $(grep -m1 'tests passed' build/seed3_$p.log)"
done
