#!/bin/bash
# usage: tools/run_all.sh quick|thorough [C01 C02 ...]  -- runs checks sequentially, prints a summary line each
tier="$1"; shift
props="$@"
if [ -z "$props" ]; then props=$(python3 -c "import json;print(' '.join(c['property_id'] for c in json.load(open('MANIFEST.json'))['checks']))"); fi
for p in $props; do
  t0=$(date +%s)
  out=$(bin/check $p --tier $tier 2>&1); rc=$?
  t1=$(date +%s)
  echo "== $p $tier rc=$rc wall=$((t1-t0))s :: $(echo "$out" | grep -c '^VIOLATION') violations, $(echo "$out" | grep -c '^KNOWN-FINDING') known"
  echo "$out" | grep -E "^VIOLATION|INFRA|Traceback|Error" | head -5
  echo "$out" | tail -1 | cut -c1-400
done
