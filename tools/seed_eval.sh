#!/bin/bash
# usage: tools/seed_eval.sh Cxx "<checks to run>"   (expects /tmp/mutout-Cxx/{patch.diff,demo*.cc,meta.json})
# 1. fresh scratch tree + patch -> full test suite must pass   2. demo fails with / passes without
# 3. run the given checks (quick) on the patched scratch tree  4. store under /verif/seeded/Cxx
set -u
id="$1"; checks="$2"
out=/tmp/mutout-$id
[ -f $out/patch.diff ] || { echo "no patch for $id"; exit 2; }
d=/var/tmp/au-seed-$id
rm -rf $d; rsync -a --exclude _build --exclude .git /repo/ $d/
(cd $d && patch -p1 --no-backup-if-mismatch < $out/patch.diff) || { echo "PATCH DOES NOT APPLY"; exit 3; }
echo "--- building test suite with the change"
(cd $d && cmake -S . -B _build -G Ninja -DFETCHCONTENT_SOURCE_DIR_GOOGLETEST=/usr/src/googletest -DFETCHCONTENT_FULLY_DISCONNECTED=ON >/dev/null 2>&1 && cmake --build _build -j16 2>&1 | tail -2 && ctest --test-dir _build -j8 2>&1 | tail -3 | head -1)
rm -rf $d/_build
echo "--- demo (as given in meta.json)"
python3 - "$id" <<'PY'
import json,sys,subprocess,os
id=sys.argv[1]
m=json.load(open('/tmp/mutout-%s/meta.json'%id))
print("summary:", m.get("summary")); print("needs:", m.get("needs")); print("demo_cmd:", m.get("demo_cmd"))
for tree,label in (('/var/tmp/au-seed-%s'%id,'WITH change'),('/repo','WITHOUT change')):
    cmd=m['demo_cmd'] if isinstance(m['demo_cmd'],str) else ' && '.join(m['demo_cmd'])
    cmd=cmd.replace('$TREE',tree)
    r=subprocess.run(cmd,shell=True,cwd='/tmp/mutout-%s'%id,stdout=subprocess.PIPE,stderr=subprocess.STDOUT,timeout=900)
    print("[%s] rc=%d :: %s" % (label,r.returncode,r.stdout.decode()[-400:].replace('\n',' | ')))
PY
echo "--- my checks on the changed tree"
for c in $checks; do
  VERIF_REPO=$d /verif/bin/check $c --tier quick 2>&1 | grep -E "^VIOLATION|^KNOWN|^\[C|INFRA" | cut -c1-260 | head -6
done
mkdir -p /verif/seeded/$id; cp $out/patch.diff $out/meta.json /verif/seeded/$id/; cp $out/*.cc /verif/seeded/$id/ 2>/dev/null
rm -rf $d
