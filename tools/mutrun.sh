#!/bin/bash
# usage: tools/mutrun.sh <patch-or-sed> <check> [<check>...]
#   <patch-or-sed> = path to a unified diff (applied with patch -p1)  OR  "FILE::SED_EXPR"
# Runs the given checks (quick tier) against a scratch copy of /repo with the change applied.
set -u
chg="$1"; shift
d=/var/tmp/au-mut-$$
rsync -a --exclude _build --exclude .git /repo/ "$d"/
if [[ "$chg" == *"::"* ]]; then
  f="${chg%%::*}"; e="${chg#*::}"
  sed -i -E "$e" "$d/$f" || exit 3
  diff -u "/repo/$f" "$d/$f" | head -20
else
  (cd "$d" && patch -p1 < "$chg") || exit 3
fi
rc=0
for c in "$@"; do
  VERIF_REPO="$d" /verif/bin/check "$c" --tier ${TIER:-quick} 2>&1 | grep -E "VIOLATION|KNOWN-FINDING|^\[C|INFRA" | cut -c1-300 | head -8
done
rm -rf "$d"
