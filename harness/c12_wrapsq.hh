// C12 sub-exploration (6): wrap-collision family for is_perfect_square's unguarded `curr * curr == n`.
//
// Newton iterate j of n (c_0 = n/2, c_j = (c_{j-1} + n/c_{j-1})/2) can be written c_j = (n + A)/2^(j+1)
// with A in a narrow window computed (in Python, exact rationals) by interval arithmetic.  A spurious
// "perfect square" needs c^2 == n (mod 2^64), i.e. (c - 2^j)^2 == 4^j - A (mod 2^64).  For every A of
// the window the COMPLETE solution set of that congruence is produced by 2-adic (Hensel) lifting; every
// solution that yields 2 <= n < 2^64 is pushed through the real au::detail::is_perfect_square /
// is_prime / find_prime_factor and judged by exact isqrt and the 12-base Miller-Rabin oracle.
//
// usage: c12_wrapsq TASKFILE DO_FACTOR   (lines: "j k Alo Ahi", inclusive, decimal)
#pragma once
#include <algorithm>

#include "c12_common.hh"

namespace c12 {

// all x modulo 2^m with x*x == r (mod 2^m); returns false if the set is too large to list
inline bool sqrt_mod_2m(u64 r, int m, std::vector<u64> &out) {
    out.clear();
    const u64 mask = m == 64 ? ~0ULL : ((1ULL << m) - 1ULL);
    r &= mask;
    if (r == 0) {
        const int h = (m + 1) / 2;  // x must be a multiple of 2^h
        if (m - h > 20) return false;
        for (u64 i = 0; i < (1ULL << (m - h)); ++i) out.push_back((i << h) & mask);
        return true;
    }
    const int e = __builtin_ctzll(r);
    if (e & 1) return true;
    const u64 u = r >> e;
    const int mm = m - e;  // need y*y == u (mod 2^mm), y odd
    std::vector<u64> ys;
    const u64 mmask = mm == 64 ? ~0ULL : ((1ULL << mm) - 1ULL);
    if (mm == 1) {
        ys.push_back(1);
    } else if (mm == 2) {
        if ((u & 3) != 1) return true;
        ys.push_back(1);
        ys.push_back(3);
    } else {
        if ((u & 7) != 1) return true;
        u64 y = 1;  // invariant: y*y == u (mod 2^t)
        for (int t = 3; t < mm; ++t) {
            const u64 m2 = (t + 1 >= 64) ? ~0ULL : ((1ULL << (t + 1)) - 1ULL);
            if (((y * y - u) & m2) != 0) y += 1ULL << (t - 1);
        }
        const u64 half = 1ULL << (mm - 1);
        ys.push_back(y & mmask);
        ys.push_back((0 - y) & mmask);
        ys.push_back((y + half) & mmask);
        ys.push_back((0 - y + half) & mmask);
    }
    const int sh = e / 2;
    if (sh > 20) return false;
    for (u64 y : ys)
        for (u64 i = 0; i < (1ULL << sh); ++i) {
            // y' = y + i * 2^mm (mod 2^(m - sh)),  x = 2^sh * y'
            const u128 yp = (u128)y + ((u128)i << mm);
            out.push_back((u64)((yp << sh)) & mask);
        }
    std::sort(out.begin(), out.end());
    out.erase(std::unique(out.begin(), out.end()), out.end());
    return true;
}

inline bool solver_selftest(unsigned long long &cases) {
    cases = 0;
    const int ms[3] = {5, 9, 12};
    for (int m : ms) {
        const u64 mod = 1ULL << m;
        for (u64 r = 0; r < mod; ++r) {
            std::vector<u64> got, want;
            if (!sqrt_mod_2m(r, m, got)) return false;
            for (u64 x = 0; x < mod; ++x)
                if (((x * x) & (mod - 1)) == r) want.push_back(x);
            if (perturbed("hensel") && r == 17 && !want.empty()) want.pop_back();
            ++cases;
            if (got != want) return false;
        }
    }
    // spot check at the full word size: every listed root squares to r, and there are 4 of them
    const u64 rs[4] = {1, 17, 0x123456789abcdef1ULL & ~6ULL, ~0ULL - 6};
    for (u64 r : rs) {
        std::vector<u64> got;
        if (!sqrt_mod_2m(r, 64, got)) return false;
        if ((r & 7) == 1 && got.size() != 4) return false;
        for (u64 x : got)
            if (x * x != r) return false;
        ++cases;
    }
    return true;
}

inline int wrapsq_main(int argc, char **argv) {
    if (argc < 2) return 2;
    unsigned long long cases = 0;
    const bool ok = solver_selftest(cases);
    std::printf("T {\"solver_selftest_ok\":%d,\"cases\":%llu}\n", (int)ok, cases);
    if (!ok) return 0;
    const bool DF = argc > 2 ? std::atoi(argv[2]) != 0 : true;
    FILE *f = std::fopen(argv[1], "r");
    if (!f) return 2;
    Tally t;
    unsigned long long a_values = 0, solutions = 0, candidates = 0, collisions = 0, prime_cands = 0,
                       degenerate = 0, collisions_prime = 0, au_wrong = 0;
    int j, k;
    char lo_s[64], hi_s[64];
    std::vector<u64> xs;
    while (std::fscanf(f, "%d %d %63s %63s", &j, &k, lo_s, hi_s) == 4) {
        const long long alo = std::strtoll(lo_s, nullptr, 10), ahi = std::strtoll(hi_s, nullptr, 10);
        const i128 four_j = (i128)1 << (2 * j);
        for (long long A = alo;; ++A) {
            ++a_values;
            const u64 r = (u64)(u128)(four_j - (i128)A);  // reduced modulo 2^64
            if (!sqrt_mod_2m(r, 64, xs)) {
                ++degenerate;
            } else {
                solutions += xs.size();
                for (u64 x : xs) {
                    const u64 c = x + (1ULL << j);  // modulo 2^64
                    const i128 n128 = ((i128)c << (j + 1)) - (i128)A;
                    if (n128 < 2 || (n128 >> 64) != 0) continue;
                    const u64 n = (u64)n128;
                    ++candidates;
                    if (c * c != n) {
                        std::printf("E {\"error\":\"lifted root does not satisfy c*c == n mod 2^64\","
                                    "\"n\":\"%s\"}\n", u64s(n).c_str());
                        continue;
                    }
                    const int au_sq = au_is_perfect_square(n);  // -1: function not present
                    const bool sq = is_square(n);
                    const SqWrap w = newton_wrap_collision(n);
                    // "collision" = the independent replay of the unguarded iteration collides, or
                    // the library's function (if present) disagrees with the exact answer
                    const bool coll = w.spurious || (au_sq >= 0 && (au_sq != 0) != sq);
                    if (coll) {
                        ++collisions;
                        au_wrong += (au_sq >= 0 && (au_sq != 0) != sq);
                        const bool pr = is_prime_mr12(n);
                        collisions_prime += pr;
                        std::printf("C {\"n\":\"%s\",\"j\":%d,\"k\":%d,\"A\":\"%s\",\"c\":\"%s\","
                                    "\"au_is_perfect_square\":%d,\"exact_square\":%d,\"prime\":%d,"
                                    "\"actual_iterate_index\":%d,\"actual_iterate\":\"%s\"}\n",
                                    u64s(n).c_str(), j, k, std::to_string(A).c_str(), u64s(c).c_str(), au_sq, sq,
                                    pr, w.index, u64s(w.iterate).c_str());
                    }
                    prime_cands += is_prime_mr12(n);
                    check_n(n, "wrap-collision", t, -1, /*do_factor=*/coll && DF);
                }
            }
            if (A == ahi) break;
        }
    }
    std::fclose(f);
    print_tally("wrap-collision", t,
                ",\"a_values\":" + std::to_string(a_values) + ",\"solutions\":" +
                    std::to_string(solutions) + ",\"candidates\":" + std::to_string(candidates) +
                    ",\"collisions\":" + std::to_string(collisions) + ",\"au_is_perfect_square_wrong\":" + std::to_string(au_wrong) + ",\"collisions_prime\":" +
                    std::to_string(collisions_prime) + ",\"prime_candidates\":" +
                    std::to_string(prime_cands) + ",\"degenerate\":" + std::to_string(degenerate));
    return 0;
}

}  // namespace c12
