// C12: one 64-bit input through the real au::detail::is_prime / find_prime_factor, judged by the
// 12-base deterministic Miller-Rabin oracle.  Shared by the family and wrap-collision harnesses.
#pragma once
#include "au/utility/factoring.hh"
#include "c12_oracle.hh"
#include "c12_watchdog.hh"

// -DC12_UBCHECK=1 (clang -fsanitize=undefined, recover mode): the runtime calls this hook once per
// report; check_n attributes a report to the (function, n) being evaluated.
extern "C" {
volatile unsigned long c12_ub_reports = 0;
#ifdef C12_UBCHECK
void __ubsan_on_report(void) { c12_ub_reports = c12_ub_reports + 1; }
#endif
}

// Fallback overload (worst conversion rank) so that the harness still builds if a repair of the tree
// renames or removes is_perfect_square; -1 means "no such function".
namespace au {
namespace detail {
inline int is_perfect_square(...) { return -1; }
}  // namespace detail
}  // namespace au

namespace c12 {

// (a direct call of the internal helper: a hang here is kind is_perfect_square-hang, which the explorer
// records but does not judge -- only is_prime / find_prime_factor on the same n are in the statement)
inline int au_is_perfect_square(u64 n) {
    return wd_call("is_perfect_square", n, [](u64 x) { return (int)au::detail::is_perfect_square(x); });
}
// guarded calls (watchdog: non-termination / traps become V lines, see c12_watchdog.hh)
inline bool au_is_prime(u64 n) {
    return wd_call("is_prime", n, [](u64 x) { return (bool)au::detail::is_prime(x); });
}
inline u64 au_find_prime_factor(u64 n) {
    return wd_call("factor", n, [](u64 x) { return (u64)au::detail::find_prime_factor(x); });
}
inline bool au_mr2_probably_prime(u64 n) {
    return wd_call("is_prime", n, [](u64 x) {
        return au::detail::miller_rabin(2u, x) == au::detail::PrimeResult::PROBABLY_PRIME;
    });
}
inline bool au_lucas_probably_prime(u64 n) {
    return wd_call("is_prime", n, [](u64 x) {
        return au::detail::strong_lucas(x) == au::detail::PrimeResult::PROBABLY_PRIME;
    });
}
inline void ub_line(const char *fn, u64 n, const char *fam, unsigned long reports) {
    std::printf("V {\"kind\":\"ub-report\",\"fn\":\"%s\",\"n\":\"%s\",\"family\":\"%s\","
                "\"reports\":%lu}\n", fn, u64s(n).c_str(), fam, reports);
}

struct Tally {
    unsigned long long evals_prime = 0, evals_factor = 0, primes = 0, composites = 0, viol = 0,
                       skipped_factor_calls = 0, factor_eq_n = 0, factor_lt_n = 0, ub_reports = 0;
    int shown = 0, ub_shown = 0;
};

// constructed: 1 = prime by construction, 0 = composite by construction, -1 = unknown
inline bool check_n(u64 n, const char *fam, Tally &t, int constructed = -1, bool do_factor = true) {
    const bool want = is_prime_mr12(n);
    if (constructed >= 0 && (constructed == 1) != want) {
        std::printf("E {\"error\":\"oracle routes disagree\",\"n\":\"%s\",\"family\":\"%s\","
                    "\"constructed\":%d,\"mr12\":%d}\n",
                    u64s(n).c_str(), fam, constructed, want);
        return false;
    }
    const unsigned long ub0 = c12_ub_reports;
    const bool got = au_is_prime(n);
    if (c12_ub_reports != ub0) {
        t.ub_reports += c12_ub_reports - ub0;
        if (t.ub_shown++ < 6) ub_line("is_prime", n, fam, c12_ub_reports - ub0);
    }
    ++t.evals_prime;
    want ? ++t.primes : ++t.composites;
    bool bad = false;
    if (got != want) {
        ++t.viol;
        bad = true;
        const SqWrap w = newton_wrap_collision(n);
        const char *cause = (want && w.spurious) ? "sqwrap" : "other";
        if (t.shown++ < 40)
            std::printf("V {\"kind\":\"is_prime-%s\",\"cause\":\"%s\",\"n\":\"%s\",\"got\":%d,\"want\":%d,"
                        "\"family\":\"%s\",\"oracle\":\"mr12\",\"newton_iterate\":%d,\"iterate\":\"%s\"}\n",
                        want ? "fn" : "fp", cause, u64s(n).c_str(), got, want, fam, w.index,
                        u64s(w.iterate).c_str());
    }
    if (do_factor && n > 1) {
        if (want && !got) {
            ++t.skipped_factor_calls;  // Pollard rho on a prime would (practically) never return
        } else {
            const unsigned long ub1 = c12_ub_reports;
            const u64 f = au_find_prime_factor(n);
            if (c12_ub_reports != ub1) {
                t.ub_reports += c12_ub_reports - ub1;
                if (t.ub_shown++ < 6) ub_line("find_prime_factor", n, fam, c12_ub_reports - ub1);
            }
            ++t.evals_factor;
            (f == n) ? ++t.factor_eq_n : ++t.factor_lt_n;
            const bool ok = f > 1 && n % f == 0 && is_prime_mr12(f);
            if (!ok) {
                ++t.viol;
                bad = true;
                if (t.shown++ < 40)
                    std::printf("V {\"kind\":\"factor\",\"cause\":\"other\",\"n\":\"%s\",\"got\":\"%s\","
                                "\"n_is_prime\":%d,\"family\":\"%s\",\"oracle\":\"mr12\"}\n",
                                u64s(n).c_str(), u64s(f).c_str(), want, fam);
            }
        }
    }
    return bad;
}

// UB build only: prove that the report hook is live (one deliberate signed overflow), then reset.
inline void ub_hook_selftest() {
#ifdef C12_UBCHECK
    const unsigned long ub0 = c12_ub_reports;
    volatile int x = 2147483647;
    x = x + 1;
    std::printf("H {\"hook_ok\":%d}\n", (int)(c12_ub_reports == ub0 + 1));
    c12_ub_reports = 0;
#endif
}

inline void print_tally(const char *fam, const Tally &t, const std::string &extra = "") {
    std::printf("S {\"family\":\"%s\",\"evals_prime\":%llu,\"evals_factor\":%llu,\"primes\":%llu,"
                "\"composites\":%llu,\"viol\":%llu,\"skipped_factor_calls\":%llu,\"factor_eq_n\":%llu,"
                "\"factor_lt_n\":%llu,\"ub_reports\":%llu%s}\n",
                fam, t.evals_prime, t.evals_factor, t.primes, t.composites, t.viol,
                t.skipped_factor_calls, t.factor_eq_n, t.factor_lt_n, t.ub_reports, extra.c_str());
}

}  // namespace c12
