// C12: one 64-bit input through the real au::detail::is_prime / find_prime_factor, judged by the
// 12-base deterministic Miller-Rabin oracle.  Shared by the family and wrap-collision harnesses.
#pragma once
#include "au/utility/factoring.hh"
#include "c12_oracle.hh"

// Fallback overload (worst conversion rank) so that the harness still builds if a repair of the tree
// renames or removes is_perfect_square; -1 means "no such function".
namespace au {
namespace detail {
inline int is_perfect_square(...) { return -1; }
}  // namespace detail
}  // namespace au

namespace c12 {

inline int au_is_perfect_square(u64 n) { return (int)au::detail::is_perfect_square(n); }

struct Tally {
    unsigned long long evals_prime = 0, evals_factor = 0, primes = 0, composites = 0, viol = 0,
                       skipped_factor_calls = 0, factor_eq_n = 0, factor_lt_n = 0;
    int shown = 0;
};

// constructed: 1 = prime by construction, 0 = composite by construction, -1 = unknown
inline bool check_n(u64 n, const char *fam, Tally &t, int constructed = -1, bool do_factor = true) {
    const bool want = is_prime_mr12(n);
    if (constructed >= 0 && (constructed == 1) != want) {
        std::printf("E {\"error\":\"oracle routes disagree\",\"n\":\"%s\",\"family\":\"%s\","
                    "\"constructed\":%d,\"mr12\":%d}\n",
                    u64s(n).c_str(), fam, constructed, want);
        return false;
    }
    const bool got = au::detail::is_prime(n);
    ++t.evals_prime;
    want ? ++t.primes : ++t.composites;
    bool bad = false;
    if (got != want) {
        ++t.viol;
        bad = true;
        const SqWrap w = newton_wrap_collision(n);
        const char *cause = (want && w.spurious) ? "sqwrap" : "other";
        if (t.shown++ < 40)
            std::printf("V {\"kind\":\"is_prime-%s\",\"cause\":\"%s\",\"n\":\"%s\",\"got\":%d,\"want\":%d,"
                        "\"family\":\"%s\",\"oracle\":\"mr12\",\"newton_iterate\":%d,\"iterate\":\"%s\"}\n",
                        want ? "fn" : "fp", cause, u64s(n).c_str(), got, want, fam, w.index,
                        u64s(w.iterate).c_str());
    }
    if (do_factor && n > 1) {
        if (want && !got) {
            ++t.skipped_factor_calls;  // Pollard rho on a prime would (practically) never return
        } else {
            const u64 f = au::detail::find_prime_factor(n);
            ++t.evals_factor;
            (f == n) ? ++t.factor_eq_n : ++t.factor_lt_n;
            const bool ok = f > 1 && n % f == 0 && is_prime_mr12(f);
            if (!ok) {
                ++t.viol;
                bad = true;
                if (t.shown++ < 40)
                    std::printf("V {\"kind\":\"factor\",\"cause\":\"other\",\"n\":\"%s\",\"got\":\"%s\","
                                "\"n_is_prime\":%d,\"family\":\"%s\",\"oracle\":\"mr12\"}\n",
                                u64s(n).c_str(), u64s(f).c_str(), want, fam);
            }
        }
    }
    return bad;
}

inline void print_tally(const char *fam, const Tally &t, const std::string &extra = "") {
    std::printf("S {\"family\":\"%s\",\"evals_prime\":%llu,\"evals_factor\":%llu,\"primes\":%llu,"
                "\"composites\":%llu,\"viol\":%llu,\"skipped_factor_calls\":%llu,\"factor_eq_n\":%llu,"
                "\"factor_lt_n\":%llu%s}\n",
                fam, t.evals_prime, t.evals_factor, t.primes, t.composites, t.viol,
                t.skipped_factor_calls, t.factor_eq_n, t.factor_lt_n, extra.c_str());
}

}  // namespace c12
