// Read-out of the implementation's Dimension<...> / Magnitude<...> packs as plain data.
// Included after the Au headers (it is part of the PCH).  No expectations live here: the data is
// printed and compared in Python against the independent reference model.
#pragma once
#include <cinttypes>
#include <cstdint>
#include <cstdio>
#include <ratio>
#include <string>
#include <type_traits>

#include "au/au.hh"

namespace vf {

template <typename B>
struct BaseName {
    static std::string get() { return "?"; }
};
template <std::uintmax_t N>
struct BaseName<au::Prime<N>> {
    static std::string get() { return std::to_string(N); }
};
template <>
struct BaseName<au::Pi> {
    static std::string get() { return "pi"; }
};

template <typename BP>
std::string bp_json() {
    using E = au::ExpT<BP>;
    return "[\"" + BaseName<au::BaseT<BP>>::get() + "\"," + std::to_string(E::num) + "," +
           std::to_string(E::den) + "]";
}

template <typename M>
struct MagJson;
template <typename... BPs>
struct MagJson<au::Magnitude<BPs...>> {
    static std::string get() {
        std::string parts[] = {bp_json<BPs>()..., ""};
        std::string s = "[";
        for (std::size_t i = 0; i < sizeof...(BPs); ++i) {
            if (i) s += ",";
            s += parts[i];
        }
        return s + "]";
    }
};
template <>
struct MagJson<au::Zero> {
    static std::string get() { return "\"zero\""; }
};

template <typename BP>
std::string dimbp_json() {
    using E = au::ExpT<BP>;
    return "[" + std::to_string(au::BaseT<BP>::base_dim_index) + "," + std::to_string(E::num) +
           "," + std::to_string(E::den) + "]";
}

template <typename D>
struct DimJson;
template <typename... BPs>
struct DimJson<au::Dimension<BPs...>> {
    static std::string get() {
        std::string parts[] = {dimbp_json<BPs>()..., ""};
        std::string s = "[";
        for (std::size_t i = 0; i < sizeof...(BPs); ++i) {
            if (i) s += ",";
            s += parts[i];
        }
        return s + "]";
    }
};

template <typename U>
std::string unit_json() {
    return "\"dim\":" + DimJson<au::detail::DimT<U>>::get() +
           ",\"mag\":" + MagJson<au::detail::MagT<U>>::get();
}

inline std::string json_escape(const char *s, std::size_t n) {
    std::string o;
    for (std::size_t i = 0; i < n; ++i) {
        unsigned char c = static_cast<unsigned char>(s[i]);
        if (c == '"' || c == '\\') {
            o += '\\';
            o += static_cast<char>(c);
        } else if (c < 0x20 || c >= 0x7f) {
            char b[8];
            std::snprintf(b, sizeof b, "\\u%04x", c);
            o += b;
        } else {
            o += static_cast<char>(c);
        }
    }
    return o;
}

// 128-bit printing helpers for sweep harnesses.
inline std::string i128_str(__int128 v) {
    if (v == 0) return "0";
    bool neg = v < 0;
    unsigned __int128 u = neg ? -(unsigned __int128)v : (unsigned __int128)v;
    std::string s;
    while (u) {
        s.insert(s.begin(), char('0' + (int)(u % 10)));
        u /= 10;
    }
    return neg ? "-" + s : s;
}

}  // namespace vf
