// C15 (b): inverse_in / inverse_as value sweeps.  Oracle: trunc(K / x) in 128-bit integers (K from the
// Python model, never from Au); for floating reps K / x in long double.
#pragma once
#include <csignal>
#include <cstdlib>
#include "c15_common.hh"

namespace c15 {

struct InvStats {
    unsigned long long evals = 0, viol = 0, rt = 0, zero_results = 0, nonzero_results = 0;
    bool type_ok = true;
    int shown = 0;
    const char *only_kind = nullptr, *only_x = nullptr;   // replay: report only this (kind, x)
};

// A trap inside the library (e.g. SIGFPE from a division by a wrongly truncated operand) on an input the statement
// covers is a violation of that input, not a harness failure: report it as a V line and stop this binary.
static volatile int c15_cur_inst = -1;
static volatile double c15_cur_x = 0;
extern "C" inline void c15_trap(int sig) {
    std::fflush(stdout);
    std::printf("V {\"inst\":%d,\"kind\":\"trap-signal-%d\",\"x\":\"%.17g\",\"got\":\"trap\",\"exp\":\"a value\"}\n",
                (int)c15_cur_inst, sig, (double)c15_cur_x);
    std::fflush(stdout);
    std::_Exit(86);
}

inline void inv_v(InvStats &st, int id, const char *kind, const std::string &x, const std::string &got,
                  const std::string &exp) {
    if (st.only_kind && (std::strcmp(st.only_kind, kind) != 0 || x != st.only_x)) return;
    ++st.viol;
    if (st.shown++ < 4)
        std::printf("V {\"inst\":%d,\"kind\":\"%s\",\"x\":\"%s\",\"got\":\"%s\",\"exp\":\"%s\"}\n", id, kind, x.c_str(),
                    got.c_str(), exp.c_str());
}

// ---- implicit-rep forms (only instantiated for instances whose probe was accepted) ----------------------
template <typename I, bool Implicit>
struct ImplicitForms {
    template <typename Q>
    static void value(InvStats &, int, Q, i128, i128) {}
    static void roundtrip(InvStats &, int) {}
    template <typename Q>
    static void fvalue(InvStats &, int, Q, ld) {}
    static void froundtrip(InvStats &, int) {}
};
template <typename I>
struct ImplicitForms<I, true> {
    typedef typename I::R R;
    template <typename Q>
    static void value(InvStats &st, int id, Q q, i128 exp, i128 x) {
        const R a = au::inverse_in(typename I::Tgt{}, q);
        const auto bq = au::inverse_as(I::tgt_maker(), q);
        if (!std::is_same<decltype(bq), const au::Quantity<typename I::Tgt, R>>::value) st.type_ok = false;
        const R b = bq.in(typename I::Tgt{});
        st.evals += 2;
        if ((i128)a != exp) inv_v(st, id, "inverse_in", i128_str(x), num_str(a), i128_str(exp));
        if ((i128)b != exp) inv_v(st, id, "inverse_as", i128_str(x), num_str(b), i128_str(exp));
    }
    static void roundtrip(InvStats &st, int id) {
        const long long hi = (long long)std::numeric_limits<R>::max() < 1000 ? (long long)std::numeric_limits<R>::max() : 1000;
        for (long long n = 1; n <= hi; ++n) {
            const auto a = au::make_quantity<typename I::Src>(static_cast<R>(n));
            const auto back = au::inverse_as(I::src_maker(), au::inverse_as(I::tgt_maker(), a));
            if (!std::is_same<decltype(back), const au::Quantity<typename I::Src, R>>::value) st.type_ok = false;
            ++st.rt;
            if (!(back == a) || (long long)back.in(typename I::Src{}) != n)
                inv_v(st, id, "roundtrip", std::to_string(n), num_str(back.in(typename I::Src{})), std::to_string(n));
        }
    }
    template <typename Q>
    static void fvalue(InvStats &st, int id, Q q, ld exp) {
        const R a = au::inverse_in(typename I::Tgt{}, q);
        const R b = au::inverse_as(I::tgt_maker(), q).in(typename I::Tgt{});
        st.evals += 2;
        const ld tol = 4 * (ld)std::numeric_limits<R>::epsilon() * std::fabs(exp);
        if (!(std::fabs((ld)a - exp) <= tol)) inv_v(st, id, "inverse_in", num_str(q.in(typename I::Src{})), num_str(a), num_fp(exp));
        if (!(std::fabs((ld)b - exp) <= tol)) inv_v(st, id, "inverse_as", num_str(q.in(typename I::Src{})), num_str(b), num_fp(exp));
    }
    static void froundtrip(InvStats &st, int id) {
        for (int n = 1; n <= 1000; ++n) {
            const auto a = au::make_quantity<typename I::Src>(static_cast<R>(n));
            const auto back = au::inverse_as(I::src_maker(), au::inverse_as(I::tgt_maker(), a));
            ++st.rt;
            const ld tol = 4 * (ld)std::numeric_limits<R>::epsilon() * n;
            if (!(std::fabs((ld)back.in(typename I::Src{}) - n) <= tol))
                inv_v(st, id, "roundtrip", std::to_string(n), num_str(back.in(typename I::Src{})), std::to_string(n));
        }
    }
};

inline void inv_summary(const InvStats &st, int id) {
    std::printf("S {\"inst\":%d,\"evals\":%llu,\"rt\":%llu,\"viol\":%llu,\"type_ok\":%d,\"zero\":%llu,\"nonzero\":%llu}\n", id,
                st.evals, st.rt, st.viol, (int)st.type_ok, st.zero_results, st.nonzero_results);
    std::fflush(stdout);
}

// Explicit-rep forms whose target rep is WIDER than the source rep R (the library must divide in the common type of the
// two reps): inverse_in<int64_t>, inverse_as<int64_t> (exact trunc(K/x)) and inverse_in<double> (K/x within 4 eps).
template <typename I, typename Q>
inline void wide_forms(InvStats &st, int id, Q q, i128 K, i128 x, std::true_type) {
    const i128 exp = K / x;
    const std::int64_t a = au::inverse_in<std::int64_t>(typename I::Tgt{}, q);
    const auto bq = au::inverse_as<std::int64_t>(I::tgt_maker(), q);
    if (!std::is_same<decltype(bq), const au::Quantity<typename I::Tgt, std::int64_t>>::value) st.type_ok = false;
    const std::int64_t b = bq.in(typename I::Tgt{});
    const double d = au::inverse_in<double>(typename I::Tgt{}, q);
    if (!std::is_same<decltype(au::inverse_in<double>(typename I::Tgt{}, q)), double>::value) st.type_ok = false;
    st.evals += 3;
    if ((i128)a != exp) inv_v(st, id, "inverse_in<int64_t>(narrower source)", i128_str(x), num_str(a), i128_str(exp));
    if ((i128)b != exp) inv_v(st, id, "inverse_as<int64_t>(narrower source)", i128_str(x), num_str(b), i128_str(exp));
    const ld ex = (ld)K / (ld)x;
    if (!(std::fabs((ld)d - ex) <= 4 * (ld)std::numeric_limits<double>::epsilon() * std::fabs(ex)))
        inv_v(st, id, "inverse_in<double>(integral source)", i128_str(x), num_str(d), num_fp(ex));
}
template <typename I, typename Q>
inline void wide_forms(InvStats &, int, Q, i128, i128, std::false_type) {}

// the x values at which the wider-target forms are evaluated: a sub-lattice of the same-rep sweep
inline bool wide_x(i128 x) {
    const i128 m = x < 0 ? -x : x;
    return m <= 4096 || m % 257 == 0 || m > 65536;
}

template <typename R>
inline bool fits_rep(i128 x) {
    return x >= (i128)std::numeric_limits<R>::min() && x <= (i128)std::numeric_limits<R>::max();
}

// integral rep: I::K is the exact conversion constant (fits unsigned long long and the rep)
template <typename I>
void run_inv_int(int id, const char *only_kind, const char *only_x) {
    typedef typename I::R R;
    typedef BoolC<(sizeof(R) < 8)> Narrow;
    InvStats st;
    st.only_kind = only_kind;
    st.only_x = only_x;
    std::signal(SIGFPE, c15_trap);
    c15_cur_inst = id;
    const i128 K = (i128)I::K;
    const long long rmax = (long long)(std::numeric_limits<R>::max() < 65536 ? std::numeric_limits<R>::max() : 65536);
    const long long rmin = std::is_signed<R>::value ? -rmax : 1;
    auto point = [&](i128 x) {
        c15_cur_x = (double)x;
        const auto q = au::make_quantity<typename I::Src>(static_cast<R>(x));
        const i128 exp = K / x;                       // C++ integer division truncates toward zero
        (exp == 0 ? st.zero_results : st.nonzero_results)++;
        const R a = au::inverse_in<R>(typename I::Tgt{}, q);
        const auto bq = au::inverse_as<R>(I::tgt_maker(), q);
        if (!std::is_same<decltype(bq), const au::Quantity<typename I::Tgt, R>>::value) st.type_ok = false;
        const R b = bq.in(typename I::Tgt{});
        st.evals += 2;
        if ((i128)a != exp) inv_v(st, id, "inverse_in<R>", i128_str(x), num_str(a), i128_str(exp));
        if ((i128)b != exp) inv_v(st, id, "inverse_as<R>", i128_str(x), num_str(b), i128_str(exp));
        ImplicitForms<I, I::IMPLICIT>::value(st, id, q, exp, x);
        if (wide_x(x)) wide_forms<I>(st, id, q, K, x, Narrow());
    };
    for (long long x = rmin; x <= rmax; ++x) {
        if (x == 0) continue;                         // K / 0: no value is promised, never executed
        point(x);
    }
    {
        // beyond +-2^16: the neighbourhood of x = K (results 1 and 0) and the limits of the rep (INT_MIN included)
        const i128 lo = (i128)std::numeric_limits<R>::min(), hi = (i128)std::numeric_limits<R>::max();
        const i128 ext[] = {K - 1, K, K + 1, -K, -K - 1, 1 - K, K / 2, K / 2 + 1, K / 3, hi, hi - 1, lo, lo + 1};
        std::vector<i128> seen;
        for (i128 x : ext) {
            if (x == 0 || !fits_rep<R>(x) || (x >= rmin && x <= rmax)) continue;
            bool dup = false;
            for (i128 y : seen) dup = dup || y == x;
            if (dup) continue;
            seen.push_back(x);
            point(x);
        }
    }
    ImplicitForms<I, I::IMPLICIT>::roundtrip(st, id);
    {
        // explicit-rep form with a SOURCE rep different from the target rep R: the statement's trunc(K/x) must be
        // formed from the actual x (the library divides in the common type of the two reps, then casts)
        const long long xs[] = {3LL, 65636LL, 1000003LL, 2147483653LL, 4294967311LL, 1000000000007LL, (long long)(K / 3 + 1),
                                -65636LL, -4294967311LL};
        for (long long x64 : xs) {
            if (x64 == 0 || (x64 < 0 && !std::is_signed<R>::value)) continue;
            c15_cur_x = (double)x64;
            const auto q = au::make_quantity<typename I::Src>(x64);
            const i128 exp = K / x64;
            const R a = au::inverse_in<R>(typename I::Tgt{}, q);
            st.evals += 1;
            if ((i128)a != exp) inv_v(st, id, "inverse_in<R>(int64_t source)", std::to_string(x64), num_str(a), i128_str(exp));
        }
        if (K <= ((i128)1 << 53)) {
            for (int x = 1; x <= 2000; ++x) {
                const double xd = x + 0.5;
                c15_cur_x = xd;
                const auto q = au::make_quantity<typename I::Src>(xd);
                const ld exact = (ld)K / (ld)xd;
                const R a = au::inverse_in<R>(typename I::Tgt{}, q);
                st.evals += 1;
                if (!(std::fabs((ld)a - exact) <= 1 + 1e-12L * std::fabs(exact)))
                    inv_v(st, id, "inverse_in<R>(double source)", std::to_string(xd), num_str(a), num_fp(exact));
            }
        }
    }
    inv_summary(st, id);
}

// wider-target forms for a source rep R that cannot hold K itself (e.g. inverse_in<int64_t>(nano(seconds), hertz(int16_t{5})))
template <typename I>
void run_inv_wide(int id, const char *only_kind, const char *only_x) {
    typedef typename I::R R;
    InvStats st;
    st.only_kind = only_kind;
    st.only_x = only_x;
    std::signal(SIGFPE, c15_trap);
    c15_cur_inst = id;
    const i128 K = (i128)I::K;
    const i128 lo = (i128)std::numeric_limits<R>::min(), hi = (i128)std::numeric_limits<R>::max();
    const long long rmax = (long long)(hi < 65536 ? hi : 65536);
    const long long rmin = std::is_signed<R>::value ? -rmax : 1;
    auto point = [&](i128 x) {
        c15_cur_x = (double)x;
        const auto q = au::make_quantity<typename I::Src>(static_cast<R>(x));
        ((K / x) == 0 ? st.zero_results : st.nonzero_results)++;
        wide_forms<I>(st, id, q, K, x, std::true_type());
    };
    for (long long x = rmin; x <= rmax; ++x)
        if (x != 0 && wide_x(x)) point(x);
    const i128 ext[] = {hi, hi - 1, lo, lo + 1};
    for (i128 x : ext)
        if (x != 0 && !(x >= rmin && x <= rmax)) point(x);
    inv_summary(st, id);
}

// floating rep: I::K() is the conversion constant as long double
template <typename I>
void run_inv_fp(int id, const char *only_kind, const char *only_x) {
    typedef typename I::R R;
    InvStats st;
    st.only_kind = only_kind;
    st.only_x = only_x;
    const ld K = I::K();
    for (long long x = -65536; x <= 65536; ++x) {
        if (x == 0) continue;
        const auto q = au::make_quantity<typename I::Src>(static_cast<R>(x));
        const ld exp = K / (ld)x;
        ++st.nonzero_results;
        const R a = au::inverse_in<R>(typename I::Tgt{}, q);
        ++st.evals;
        const ld tol = 4 * (ld)std::numeric_limits<R>::epsilon() * std::fabs(exp);
        if (!(std::fabs((ld)a - exp) <= tol)) inv_v(st, id, "inverse_in<R>", std::to_string(x), num_str(a), num_fp(exp));
        ImplicitForms<I, I::IMPLICIT>::fvalue(st, id, q, exp);
        if (wide_x(x)) {
            // floating target rep with an INTEGRAL source rep: K / x must be formed in the floating type
            const auto q32 = au::make_quantity<typename I::Src>(static_cast<std::int32_t>(x));
            const R w = au::inverse_in<R>(typename I::Tgt{}, q32);
            const auto wq = au::inverse_as<R>(I::tgt_maker(), q32);
            if (!std::is_same<decltype(wq), const au::Quantity<typename I::Tgt, R>>::value) st.type_ok = false;
            st.evals += 2;
            if (!(std::fabs((ld)w - exp) <= tol)) inv_v(st, id, "inverse_in<R>(int32_t source)", std::to_string(x), num_str(w), num_fp(exp));
            if (!(std::fabs((ld)wq.in(typename I::Tgt{}) - exp) <= tol))
                inv_v(st, id, "inverse_as<R>(int32_t source)", std::to_string(x), num_str(wq.in(typename I::Tgt{})), num_fp(exp));
        }
    }
    ImplicitForms<I, I::IMPLICIT>::froundtrip(st, id);
    inv_summary(st, id);
}

}  // namespace c15
