// Small helpers shared by generated translation units (part of the PCH).
#pragma once
#include <cstring>
#include <type_traits>

namespace vf {
template <typename...>
using void_t = void;

// bit-exact comparison of two objects of the same trivially copyable type
template <typename T>
inline bool same_bits(const T &a, const T &b) {
    return std::memcmp(&a, &b, sizeof(T)) == 0;
}
}  // namespace vf
