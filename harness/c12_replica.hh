// C12 sub-exploration (4): small-word replica of au/utility/mod.hh.
// The *unmodified header text* is compiled with `uint64_t` macro-replaced by a W-bit modular integer
// class whose every operation that would wrap (or be narrowed) increments a trap counter.  All
// (a, b, n) with a, b < n < 2^W are enumerated against plain int arithmetic.  This TU must not include
// any other Au header.  A divergence here is MODEL-DIVERGENCE (evidence), never a VIOLATION by itself;
// the explorer scales each one to 64 bits and re-runs it through the real helper (c12_modcube single).
// usage: c12_replica PART NPARTS      (compile with -DC12_W=8 or 10)
#pragma once
#include <cstdint>
#include <cstdio>
#include <cstdlib>
#include <limits>

#ifndef C12_W
#define C12_W 8
#endif

namespace c12r {

static unsigned long traps = 0;
inline unsigned long long trap(unsigned long long x) {
    ++traps;
    return x;
}
constexpr unsigned long long MASK = (1ULL << C12_W) - 1ULL;
constexpr unsigned long long chk(unsigned long long x) { return (x > MASK ? trap(x) : x) & MASK; }

struct Wd {
    unsigned long long v;
    constexpr Wd() : v(0) {}
    constexpr Wd(unsigned x) : v(chk(x)) {}  // the header only ever writes 0u, 1u, 2u
    struct Raw {};
    constexpr Wd(unsigned long long x, Raw) : v(chk(x)) {}
    friend constexpr Wd operator+(Wd a, Wd b) { return Wd(a.v + b.v, Raw{}); }
    friend constexpr Wd operator-(Wd a, Wd b) {
        return a.v >= b.v ? Wd(a.v - b.v, Raw{}) : Wd(trap(a.v + MASK + 1ULL - b.v) & MASK, Raw{});
    }
    friend constexpr Wd operator*(Wd a, Wd b) { return Wd(a.v * b.v, Raw{}); }
    friend constexpr Wd operator/(Wd a, Wd b) { return Wd(b.v ? a.v / b.v : trap(0), Raw{}); }
    friend constexpr Wd operator%(Wd a, Wd b) { return Wd(b.v ? a.v % b.v : trap(0), Raw{}); }
    constexpr Wd &operator/=(Wd b) { return *this = *this / b; }
    constexpr Wd &operator%=(Wd b) { return *this = *this % b; }
    friend constexpr bool operator==(Wd a, Wd b) { return a.v == b.v; }
    friend constexpr bool operator!=(Wd a, Wd b) { return a.v != b.v; }
    friend constexpr bool operator<(Wd a, Wd b) { return a.v < b.v; }
    friend constexpr bool operator<=(Wd a, Wd b) { return a.v <= b.v; }
    friend constexpr bool operator>(Wd a, Wd b) { return a.v > b.v; }
    friend constexpr bool operator>=(Wd a, Wd b) { return a.v >= b.v; }
};

}  // namespace c12r

namespace std {
template <>
struct numeric_limits<::c12r::Wd> {
    static constexpr bool is_specialized = true;
    static constexpr ::c12r::Wd max() { return ::c12r::Wd(::c12r::MASK, ::c12r::Wd::Raw{}); }
    static constexpr ::c12r::Wd min() { return ::c12r::Wd(); }
    static constexpr ::c12r::Wd lowest() { return ::c12r::Wd(); }
};
}  // namespace std

#define uint64_t ::c12r::Wd
#include "au/utility/mod.hh"
#undef uint64_t

namespace c12r {

struct RStats {
    unsigned long long evals = 0, div = 0, trapped = 0, mul_overflow_path = 0, pow_evals = 0;
    int shown = 0;
};

inline void diverge(RStats &st, const char *kind, const char *op, unsigned a, unsigned b, unsigned n,
                    unsigned long long got, unsigned long long want) {
    if (st.shown++ < 12)
        std::printf("D {\"W\":%d,\"kind\":\"%s\",\"op\":\"%s\",\"a\":%u,\"b\":%u,\"n\":%u,\"got\":%llu,"
                    "\"want\":%llu}\n",
                    C12_W, kind, op, a, b, n, got, want);
}

#define C12R_CALL(opname, expr, wantexpr, A_, B_, N_)                                    \
    do {                                                                                 \
        const unsigned long t0 = traps;                                                  \
        const unsigned long long got_ = (expr).v;                                        \
        const unsigned long long want_ = (wantexpr);                                     \
        ++st.evals;                                                                      \
        if (got_ != want_) {                                                             \
            ++st.div;                                                                    \
            diverge(st, "value", opname, A_, B_, N_, got_, want_);                       \
        }                                                                                \
        if (traps != t0) {                                                               \
            ++st.trapped;                                                                \
            diverge(st, "wrap", opname, A_, B_, N_, got_, want_);                        \
        }                                                                                \
    } while (0)

inline int replica_main(int argc, char **argv) {
    if (argc < 3) return 2;
    const unsigned part = (unsigned)std::atoi(argv[1]), nparts = (unsigned)std::atoi(argv[2]);
    const unsigned LIM = 1u << C12_W;
    RStats st;
    for (unsigned n = 1; n < LIM; ++n) {
        if (n % nparts != part) continue;
        const Wd N(n, Wd::Raw{});
        for (unsigned a = 0; a < n; ++a) {
            const Wd A(a, Wd::Raw{});
            for (unsigned b = 0; b < n; ++b) {
                const Wd B(b, Wd::Raw{});
                C12R_CALL("add_mod", au::detail::add_mod(A, B, N), (a + b) % n, a, b, n);
                C12R_CALL("sub_mod", au::detail::sub_mod(A, B, N), (a + n - b) % n, a, b, n);
                C12R_CALL("mul_mod", au::detail::mul_mod(A, B, N),
                          ((unsigned long long)a * b) % n, a, b, n);
                st.mul_overflow_path += ((unsigned long long)a * b > MASK);
            }
            if (n & 1u)
                C12R_CALL("half_mod_odd", au::detail::half_mod_odd(A, N),
                          ((a & 1u) ? (a + n) / 2u : a / 2u), a, 0u, n);
        }
        if (n >= 2)
            for (unsigned b = 0; b < LIM; ++b)
                for (unsigned e = 0; e < LIM; ++e) {
#if C12_W > 8
                    // W > 8: all bases below n, exponents 0..40, 2^k-1..2^k+1, n-2..n, top of range
                    if (b >= n) continue;
                    if (!(e <= 40 || ((e & (e - 1)) == 0) || (((e + 1) & e) == 0) ||
                          (((e - 1) & (e - 2)) == 0) || (e + 2 >= n && e <= n) || e + 4 >= LIM))
                        continue;
#endif
                    unsigned long long r = 1 % n, x = b % n;
                    for (unsigned ee = e; ee; ee >>= 1) {
                        if (ee & 1u) r = (r * x) % n;
                        x = (x * x) % n;
                    }
                    C12R_CALL("pow_mod",
                              au::detail::pow_mod(Wd(b, Wd::Raw{}), Wd(e, Wd::Raw{}), N), r, b, e, n);
                    ++st.pow_evals;
                }
    }
    std::printf("S {\"W\":%d,\"evals\":%llu,\"divergences\":%llu,\"trapped\":%llu,"
                "\"mul_overflow_path\":%llu,\"pow_evals\":%llu}\n",
                C12_W, st.evals, st.div, st.trapped, st.mul_overflow_path, st.pow_evals);
    return 0;
}

}  // namespace c12r
