// C12 sub-exploration (1): every n in [lo, hi) (hi <= 2^32): au::detail::is_prime and
// au::detail::find_prime_factor against a segmented sieve.  While passing, the harness's own slow
// strong base-2 / strong Lucas tests list the pseudoprimes of the range (the inputs on which exactly
// one half of Baillie-PSW errs) and the Au halves are observed on them.
//
// Every call of the code under test is guarded by the watchdog of c12_watchdog.hh (a call that does not
// return within CPU seconds, or traps, is reported as a V line and ends the process with code 86).
//
// usage: c12_sieve LO HI MODE   (MODE bit 0: is_prime comparison, bit 1: find_prime_factor,
//                                 bit 2: pseudoprime search by the harness's own slow tests)
#pragma once
#include "c12_common.hh"

namespace c12 {

struct SieveStats {
    unsigned long long evals_prime = 0, evals_factor = 0, primes = 0, composites = 0, viol = 0,
                       factor_eq_n = 0, factor_lt_n = 0, factor_big = 0, spsp2 = 0, slpsp = 0,
                       both_psp = 0, au_mr2_agree = 0, au_lucas_agree = 0, component_div = 0,
                       skipped_factor_calls = 0;
};

inline int sieve_main(int argc, char **argv) {
    if (argc < 4) return 2;
    const u64 lo = std::strtoull(argv[1], nullptr, 10), hi = std::strtoull(argv[2], nullptr, 10);
    const int fmode = std::atoi(argv[3]);
    if (hi > (1ULL << 32) || lo > hi) return 2;
    ub_hook_selftest();
    const std::vector<std::uint32_t> base = small_primes(65536);
    std::vector<unsigned char> smallp(65536, 0);
    for (std::uint32_t p : base) smallp[p] = 1;
    SieveStats st;
    int shown = 0, ub_shown = 0;
    const u64 SEG = 1ULL << 21;
    std::vector<unsigned char> comp(SEG);
    std::string psp2, pspl;
    for (u64 a = lo; a < hi; a += SEG) {
        const u64 b = (a + SEG < hi) ? a + SEG : hi;
        std::memset(comp.data(), 0, SEG);
        for (std::uint32_t p : base) {
            if ((u64)p * p >= b) break;
            u64 k = ((a + p - 1) / p) * p;
            if (k < (u64)p * p) k = (u64)p * p;
            for (; k < b; k += p) comp[k - a] = 1;
        }
        for (u64 n = a; n < b; ++n) {
            bool want = n >= 2 && !comp[n - a];
            if (perturbed("sieve") && n == 1000003) want = false;
            // (factor-only mode still needs is_prime on primes: the hang guard below)
            const unsigned long ub0 = c12_ub_reports;
            const bool got = ((fmode & 1) || want) ? au_is_prime(n) : false;
            if (c12_ub_reports != ub0 && ub_shown++ < 6) ub_line("is_prime", n, "sieve", c12_ub_reports - ub0);
            want ? ++st.primes : ++st.composites;
            if (fmode & 1) ++st.evals_prime;
            if ((fmode & 1) && got != want) {
                ++st.viol;
                if (shown++ < 20)
                    std::printf("V {\"kind\":\"is_prime-%s\",\"n\":\"%s\",\"got\":%d,\"want\":%d,"
                                "\"oracle\":\"sieve\"}\n",
                                want ? "fn" : "fp", u64s(n).c_str(), got, want);
            }
            if ((fmode & 2) && n > 1) {
                if (want && !got) {
                    ++st.skipped_factor_calls;  // Pollard rho on a prime would not terminate
                } else {
                    const unsigned long ub1 = c12_ub_reports;
                    const u64 f = au_find_prime_factor(n);
                    if (c12_ub_reports != ub1 && ub_shown++ < 6)
                        ub_line("find_prime_factor", n, "sieve", c12_ub_reports - ub1);
                    ++st.evals_factor;
                    bool ok = f > 1 && n % f == 0;
                    if (ok) {
                        if (f == n) {
                            ok = want;
                            ++st.factor_eq_n;
                        } else {
                            ++st.factor_lt_n;
                            if (f < 65536) {
                                ok = smallp[f];
                            } else {
                                ++st.factor_big;
                                ok = is_prime_mr12(f);
                            }
                        }
                    }
                    if (!ok) {
                        ++st.viol;
                        if (shown++ < 20)
                            std::printf("V {\"kind\":\"factor\",\"n\":\"%s\",\"got\":\"%s\","
                                        "\"n_is_prime\":%d,\"oracle\":\"sieve\"}\n",
                                        u64s(n).c_str(), u64s(f).c_str(), want);
                    }
                }
            }
            if ((fmode & 4) && !want && n > 8 && (n & 1)) {
                const bool p2 = sprp(n, 2), pl = slprp(n);
                if (p2 || pl) {
                    st.spsp2 += p2;
                    st.slpsp += pl;
                    st.both_psp += (p2 && pl);
                    const bool amr = au_mr2_probably_prime(n);
                    const bool alu = au_lucas_probably_prime(n);
                    st.au_mr2_agree += (amr == p2);
                    st.au_lucas_agree += (alu == pl);
                    st.component_div += (amr != p2) + (alu != pl);
                    if (p2) psp2 += (psp2.empty() ? "" : ",") + u64s(n);
                    if (pl) pspl += (pspl.empty() ? "" : ",") + u64s(n);
                }
            }
        }
    }
    std::printf("P {\"spsp2\":[%s],\"slpsp\":[%s]}\n", psp2.c_str(), pspl.c_str());
    std::printf("S {\"lo\":%llu,\"hi\":%llu,\"fmode\":%d,\"evals_prime\":%llu,\"evals_factor\":%llu,"
                "\"primes\":%llu,\"composites\":%llu,\"viol\":%llu,\"factor_eq_n\":%llu,"
                "\"factor_lt_n\":%llu,\"factor_big\":%llu,\"spsp2\":%llu,\"slpsp\":%llu,"
                "\"both_psp\":%llu,\"au_mr2_agree\":%llu,\"au_lucas_agree\":%llu,"
                "\"component_div\":%llu,\"skipped_factor_calls\":%llu,\"ub_reports\":%lu}\n",
                (unsigned long long)lo, (unsigned long long)hi, fmode, st.evals_prime,
                st.evals_factor, st.primes, st.composites, st.viol, st.factor_eq_n, st.factor_lt_n,
                st.factor_big, st.spsp2, st.slpsp, st.both_psp, st.au_mr2_agree, st.au_lucas_agree,
                st.component_div, st.skipped_factor_calls, (unsigned long)c12_ub_reports);
    return 0;
}

}  // namespace c12
