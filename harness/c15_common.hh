// C15 harness support: number printing, ulp helpers, structured floating alphabets.  No Au code.
#pragma once
#include <cmath>
#include <cstdint>
#include <cstdio>
#include <cstring>
#include <limits>
#include <string>
#include <type_traits>
#include <vector>

namespace c15 {

typedef long double ld;
typedef __int128 i128;
template <bool B>
using BoolC = std::integral_constant<bool, B>;

inline std::string i128_str(i128 v) {
    if (v == 0) return "0";
    bool neg = v < 0;
    unsigned __int128 u = neg ? -(unsigned __int128)v : (unsigned __int128)v;
    std::string s;
    while (u) {
        s.insert(s.begin(), char('0' + (int)(u % 10)));
        u /= 10;
    }
    return neg ? "-" + s : s;
}

template <typename T>
inline std::string num_fp(T v) {
    if (std::isnan(v)) return "nan";
    if (std::isinf(v)) return v < 0 ? "-inf" : "inf";
    char b[80];
    std::snprintf(b, sizeof b, "%La", (ld)v);
    return b;
}
template <typename T>
inline std::string num_str_impl(T v, std::true_type) {
    return i128_str((i128)v);
}
template <typename T>
inline std::string num_str_impl(T v, std::false_type) {
    return num_fp(v);
}
// integers in decimal, floating values as exact hexfloat
template <typename T>
inline std::string num_str(T v) {
    return num_str_impl(v, std::is_integral<T>());
}

template <typename T>
inline bool same_value(T a, T b) {  // bit equality, all NaNs equal
    if (a != a && b != b) return true;
    return std::memcmp(&a, &b, sizeof(T)) == 0;
}
inline bool same_value(ld a, ld b) {
    if (a != a && b != b) return true;
    return a == b && std::signbit(a) == std::signbit(b);
}

// spacing of T at |v| (never below the smallest denormal)
template <typename T>
inline ld ulp_at(ld v) {
    v = std::fabs(v);
    if (!(v <= (ld)std::numeric_limits<T>::max())) return (ld)std::numeric_limits<T>::max();
    T t = (T)v;
    T n = std::nextafter(t, std::numeric_limits<T>::infinity());
    if (std::isinf(n)) return (ld)t - (ld)std::nextafter(t, (T)0);
    return (ld)n - (ld)t;
}

template <typename T>
inline void push_window(std::vector<T> &v, ld center) {
    if (!(std::fabs(center) <= (ld)std::numeric_limits<T>::max())) return;
    T x = (T)center;
    T up = x, dn = x;
    v.push_back(x);
    for (int i = 0; i < 2; ++i) {
        up = std::nextafter(up, std::numeric_limits<T>::infinity());
        dn = std::nextafter(dn, -std::numeric_limits<T>::infinity());
        if (std::isfinite(up)) v.push_back(up);
        if (std::isfinite(dn)) v.push_back(dn);
    }
}

// the integers k at and around which rounding behaviour is probed
inline const std::vector<ld> &anchor_ints() {
    static std::vector<ld> a;
    if (a.empty()) {
        const ld pos[] = {0, 1, 2, 3, 4, 5, 7, 8, 10, 100, 127, 128, 255, 256, 1000, 32767, 32768, 65535, 65536,
                          8388607.0L, 8388608.0L, 16777215.0L, 16777216.0L, 16777218.0L, 2147483647.0L, 2147483648.0L,
                          4294967296.0L, 4503599627370496.0L, 9007199254740990.0L, 9007199254740992.0L,
                          9007199254740994.0L, 4611686018427387904.0L, 9223372036854775808.0L};
        for (ld p : pos) {
            a.push_back(p);
            if (p != 0) a.push_back(-p);
        }
    }
    return a;
}

// Structured floating alphabet for a conversion e = x * ratio + offset (see DESIGN.md §6 C15):
//  every integer and every half-integer in +-2^16; k, k+-0.5 and their +-1, +-2 ulp neighbours for the anchor
//  integers (incl. 2^24, 2^53 neighbourhoods); the pre-images of k and k+-0.5 under the conversion, +-2 ulp;
//  tiny (denormal, min normal) and huge-but-finite values.
template <typename T>
inline std::vector<T> fp_alphabet(ld ratio, ld offset, long span) {
    std::vector<T> v;
    for (long k = -span; k <= span; ++k) {
        v.push_back((T)k);
        if (k < span) v.push_back((T)((ld)k + 0.5L));
    }
    const ld offs[] = {0.0L, -0.5L, 0.5L};
    for (ld k : anchor_ints())
        for (ld o : offs) {
            push_window(v, k + o);
            if (std::fabs(k) <= 9007199254740994.0L) push_window(v, (k + o - offset) / ratio);
        }
    typedef std::numeric_limits<T> L;
    const T ext[] = {(T)0, L::denorm_min(), L::min(), (T)(L::min() * 3), (T)1e-30, L::epsilon(), L::max(),
                     (T)(L::max() / 2), (T)(L::max() / 1024), (T)1e30, (T)3.0e38f};
    for (T e : ext) {
        push_window(v, (ld)e);
        push_window(v, -(ld)e);
    }
    v.push_back(-(T)0);
    return v;
}

}  // namespace c15
