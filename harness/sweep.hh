// Value-sweep support: exact oracle for x*N/D (no Au code), interval iteration, UBSan report hook.
#pragma once
#include <cinttypes>
#include <cstdint>
#include <cstdio>
#include <cstdlib>
#include <limits>
#include <string>
#include <type_traits>
#include <vector>

// ---- UBSan observer --------------------------------------------------------------------------
// clang's UBSan runtime calls this weak hook for every report (recover mode).  The sweep compares
// the counter before/after each library call, so a report is attributed to (instance, value).
extern "C" {
volatile unsigned long vf_ubsan_reports = 0;
void __ubsan_on_report(void) { vf_ubsan_reports = vf_ubsan_reports + 1; }
}

namespace vf {

typedef unsigned __int128 u128;
typedef __int128 i128;


// ---- independent promotion table ---------------------------------------------------------------
template <typename T>
struct Promo {
    typedef T type;
};
template <>
struct Promo<int8_t> {
    typedef int type;
};
template <>
struct Promo<uint8_t> {
    typedef int type;
};
template <>
struct Promo<int16_t> {
    typedef int type;
};
template <>
struct Promo<uint16_t> {
    typedef int type;
};

template <typename T>
constexpr u128 abs_min() {  // |lowest(T)|
    return std::is_signed<T>::value ? (u128(1) << (sizeof(T) * 8 - 1)) : u128(0);
}
template <typename T>
constexpr u128 abs_max() {
    return std::is_signed<T>::value ? (u128(1) << (sizeof(T) * 8 - 1)) - 1
                                    : (u128(1) << (sizeof(T) * 8)) - 1;
}

struct Exact {
    bool trunc;        // D does not divide x*N
    bool prod_in_p;    // x*N representable in promoted type
    bool outside_t;    // rational x*N/D strictly outside [Tmin, Tmax]
    bool band;         // strictly between Tmax and Tmax+1 (or Tmin-1 and Tmin): trunc(x*N/D) fits
    bool neg;
    u128 q;            // |trunc(x*N/D)|
    bool computable() const { return prod_in_p && (!outside_t || band); }
    bool overflow() const { return !prod_in_p || outside_t; }
};

template <typename T>
inline Exact exact_scale(T x, std::uint64_t N, std::uint64_t D) {
    typedef typename Promo<T>::type P;
    Exact e;
    e.neg = x < 0;
    u128 ax = e.neg ? (u128)(-(i128)x) : (u128)x;
    u128 prod = ax * (u128)N;
    e.prod_in_p = e.neg ? prod <= abs_min<P>() : prod <= abs_max<P>();
    e.q = prod / D;
    u128 r = prod % D;
    e.trunc = r != 0;
    u128 lim = e.neg ? abs_min<T>() : abs_max<T>();
    e.outside_t = e.q > lim || (e.q == lim && r != 0);
    e.band = (e.q == lim && r != 0);
    if (prod == 0) e.neg = false;
    return e;
}

inline std::string u128_str(u128 u) {
    if (u == 0) return "0";
    std::string s;
    while (u) {
        s.insert(s.begin(), char('0' + (int)(u % 10)));
        u /= 10;
    }
    return s;
}
template <typename T>
inline std::string int_str(T v) {
    if (v < 0) return "-" + u128_str((u128)(-(i128)v));
    return u128_str((u128)v);
}

struct Interval {
    // inclusive, as 128-bit so that every 64-bit type's full range is expressible
    i128 lo, hi;
};

struct Stats {
    unsigned long long evals = 0, n_trunc = 0, n_ovf = 0, n_cleared = 0, n_band = 0, n_viol = 0,
                       n_ubsan = 0, n_policy = 0;
};

}  // namespace vf
