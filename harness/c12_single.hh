// C12 replay helper: one input through the same judgement as the explorers (same watchdog: a hang or a
// trap reproduces as a V line and exit code 86; built with -DC12_UBCHECK it also reproduces ub-report).
// usage: c12_single prime N [N...] (is_prime + find_prime_factor against the 12-base oracle)
//        c12_single square N       (is_perfect_square against exact isqrt; informational)
#pragma once
#include "c12_common.hh"

namespace c12 {
inline int single_main(int argc, char **argv) {
    if (argc < 3) return 2;
    const std::string mode = argv[1];
    const u64 n = std::strtoull(argv[2], nullptr, 10);
    Tally t;
    ub_hook_selftest();
    if (mode == "prime") {
        for (int i = 2; i < argc; ++i)
            check_n(std::strtoull(argv[i], nullptr, 10), "replay", t, -1, true);
        print_tally("replay", t);
        return 0;
    }
    if (mode == "square") {
        const SqWrap w = newton_wrap_collision(n);
        std::printf("Q {\"n\":\"%s\",\"au_is_perfect_square\":%d,\"exact_square\":%d,\"spurious_iterate\":%d,"
                    "\"iterate\":\"%s\"}\n", u64s(n).c_str(), au_is_perfect_square(n),
                    (int)is_square(n), w.index, u64s(w.iterate).c_str());
        return 0;
    }
    return 2;
}
}  // namespace c12
