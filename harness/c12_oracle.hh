// C12 reference oracle.  No Au code in here: plain C++ over unsigned __int128.
//   * mulmod/powmod over u128
//   * deterministic 12-base Miller-Rabin (bases 2..37: proven deterministic for n < 3.3e24)
//   * slow, textbook strong base-2 test and strong Lucas-Selfridge test (Q-tracking formulation,
//     signed 128-bit arithmetic) used only to *find* pseudoprimes, never to classify
//   * exact integer square root, Jacobi symbol, small segmented sieve
#pragma once
#include <cinttypes>
#include <cmath>
#include <cstdint>
#include <cstdio>
#include <cstdlib>
#include <cstring>
#include <string>
#include <vector>

namespace c12 {

typedef unsigned __int128 u128;
typedef __int128 i128;
typedef std::uint64_t u64;

// Selftest knob: VERIF_C12_PERTURB=<name> deliberately breaks one oracle routine so that the
// comparison machinery can be shown to fail (never set in normal runs).
inline bool perturbed(const char *what) {
    static const char *p = std::getenv("VERIF_C12_PERTURB");
    return p && std::strcmp(p, what) == 0;
}

// (operands below 2^32 cannot overflow 64 bits: skip the slow 128-bit division there)
inline u64 mulmod(u64 a, u64 b, u64 n) {
    if (((a | b) >> 32) == 0) return (a * b) % n;
    return (u64)(((u128)a * (u128)b) % (u128)n);
}
inline u64 addmod(u64 a, u64 b, u64 n) {
    if (((a | b) >> 63) == 0) return (a + b) % n;
    return (u64)(((u128)a + (u128)b) % (u128)n);
}
inline u64 submod(u64 a, u64 b, u64 n) {
    if (((a | n) >> 63) == 0) return (a + n - b % n) % n;
    return (u64)(((u128)a + (u128)n - (u128)(b % n)) % (u128)n);
}
inline u64 powmod(u64 b, u64 e, u64 n) {
    if ((n >> 32) == 0) {
        u64 r = 1 % n, x = b % n;
        while (e) {
            if (e & 1) r = (r * x) % n;
            x = (x * x) % n;
            e >>= 1;
        }
        return r;
    }
    u128 r = 1 % n, x = b % n;
    while (e) {
        if (e & 1) r = (r * x) % n;
        x = (x * x) % n;
        e >>= 1;
    }
    return (u64)r;
}
// the unique h < n with 2h == a (mod n), n odd
inline u64 halfmod(u64 a, u64 n) {
    u128 t = (a & 1) ? (u128)(a % n) + (u128)n : (u128)(a % n);
    return (u64)(t >> 1);  // < n because t < 2n
}

inline bool sprp(u64 n, u64 a) {  // n odd > 2, strong probable prime to base a
    u64 d = n - 1;
    int s = 0;
    while ((d & 1) == 0) {
        d >>= 1;
        ++s;
    }
    u64 x = powmod(a, d, n);
    if (x == 1 || x == n - 1) return true;
    for (int r = 1; r < s; ++r) {
        x = mulmod(x, x, n);
        if (x == n - 1) return true;
        if (x == 1) return false;
    }
    return false;
}

inline bool is_prime_mr12(u64 n) {
    static const u64 B[12] = {2, 3, 5, 7, 11, 13, 17, 19, 23, 29, 31, 37};
    if (n < 2) return false;
    for (int i = 0; i < 12; ++i) {
        if (n == B[i]) return true;
        if (n % B[i] == 0) return false;
    }
    for (int i = 0; i < 12; ++i)
        if (!sprp(n, B[i])) return false;
    if (perturbed("mr12") && n % 1000 == 7) return false;
    return true;
}

inline u64 isqrt(u64 n) {  // floor(sqrt(n)), exact (floating seed, 128-bit integer correction)
    if (n == 0) return 0;
    u64 r = (u64)__builtin_sqrt((double)n);
    if (r > 4294967295ULL) r = 4294967295ULL;
    while ((u128)r * r > (u128)n) --r;
    while ((u128)(r + 1) * (r + 1) <= (u128)n) ++r;
    return r;
}
inline bool is_square(u64 n) {
    u64 r = isqrt(n);
    return r * r == n;
}

inline int jacobi(i128 a_in, u64 n) {  // n odd positive
    i128 m = (i128)n;
    i128 a = a_in % m;
    if (a < 0) a += m;
    u64 x = (u64)a, y = n;
    int j = 1;
    while (x != 0) {
        while ((x & 1) == 0) {
            x >>= 1;
            u64 r = y & 7;
            if (r == 3 || r == 5) j = -j;
        }
        u64 t = x;
        x = y;
        y = t;
        if ((x & 3) == 3 && (y & 3) == 3) j = -j;
        x %= y;
    }
    return y == 1 ? j : 0;
}

// Strong Lucas probable prime test with Selfridge's parameters (Baillie-Wagstaff method A):
// D = first of 5,-7,9,-11,... with (D/n) = -1, P = 1, Q = (1-D)/4.  n odd, n > 2.
// Textbook formulation: U_2k = U_k V_k, V_2k = V_k^2 - 2 Q^k, index+1 via (P U + V)/2, (D U + P V)/2.
inline bool slprp(u64 n) {
    if (is_square(n)) return false;
    long D = 5;
    for (;;) {
        int j = jacobi((i128)D, n);
        if (j == -1) break;
        if (j == 0) {
            u64 ad = (u64)(D < 0 ? -D : D);
            if (ad % n != 0) return false;  // shares a proper factor with n
        }
        D = (D > 0) ? -(D + 2) : -(D - 2);
    }
    const i128 N = (i128)n;
    i128 Q = (1 - (i128)D) / 4;
    i128 Qm = ((Q % N) + N) % N;
    i128 Dm = (((i128)D % N) + N) % N;
    u128 d = (u128)n + 1;
    int s = 0;
    while ((d & 1) == 0) {
        d >>= 1;
        ++s;
    }
    // binary ladder over the bits of d, from the top
    int top = 0;
    for (int i = 0; i < 65; ++i)
        if ((d >> i) & 1) top = i;
    u64 U = 1, V = 1, Qk = (u64)Qm;  // index 1
    for (int i = top - 1; i >= 0; --i) {
        U = mulmod(U, V, n);
        V = submod(mulmod(V, V, n), addmod(Qk, Qk, n), n);
        Qk = mulmod(Qk, Qk, n);
        if ((d >> i) & 1) {
            u64 U2 = halfmod(addmod(U, V, n), n);
            u64 V2 = halfmod(addmod(mulmod((u64)Dm, U, n), V, n), n);
            U = U2;
            V = V2;
            Qk = mulmod(Qk, (u64)Qm, n);
        }
    }
    if (U == 0 || V == 0) return true;
    for (int r = 1; r < s; ++r) {
        V = submod(mulmod(V, V, n), addmod(Qk, Qk, n), n);
        Qk = mulmod(Qk, Qk, n);
        if (V == 0) return true;
    }
    return false;
}

// primes below `limit` (limit <= 2^32), simple sieve
inline std::vector<std::uint32_t> small_primes(std::uint64_t limit) {
    std::vector<unsigned char> s(limit, 1);
    std::vector<std::uint32_t> out;
    for (std::uint64_t i = 2; i < limit; ++i) {
        if (!s[i]) continue;
        out.push_back((std::uint32_t)i);
        for (std::uint64_t k = i * i; k < limit; k += i) s[k] = 0;
    }
    return out;
}

inline std::string u64s(u64 v) { return std::to_string((unsigned long long)v); }
inline std::string u128s(u128 u) {
    if (u == 0) return "0";
    std::string s;
    while (u) {
        s.insert(s.begin(), char('0' + (int)(u % 10)));
        u /= 10;
    }
    return s;
}

// Independent replay of the Newton iteration "c <- (c + n/c)/2 from n/2" in 128-bit arithmetic:
// reports whether some iterate c has c*c == n only modulo 2^64 (the F11 cause attribution).
struct SqWrap {
    bool spurious;  // an iterate squares to n modulo 2^64 but not exactly
    int index;      // which iterate (1-based)
    u64 iterate;
};
inline SqWrap newton_wrap_collision(u64 n) {
    SqWrap r = {false, 0, 0};
    if (n < 2) return r;
    u128 prev = n / 2;
    for (int j = 1; j < 200; ++j) {
        u128 curr = (prev + (u128)n / prev) / 2;
        u128 sq = curr * curr;
        if (sq == (u128)n) return r;  // genuine square
        if ((u64)sq == n) {
            r.spurious = true;
            r.index = j;
            r.iterate = (u64)curr;
            return r;
        }
        if (curr >= prev) return r;
        prev = curr;
    }
    return r;
}

}  // namespace c12
