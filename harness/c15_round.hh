// C15 (a): floor_/ceil_/round_{in,as} sweeps.  Oracle (no Au code): e = x * ratio + offset in long double with
// ratio/offset supplied by the Python model; the statement's inequalities are evaluated on e; a failing inequality
// is a violation only when e is farther than the don't-care band from the deciding boundary.
#pragma once
#include "c15_common.hh"

namespace c15 {

enum RFn { FLOOR = 0, CEIL = 1, ROUND = 2 };

struct RStats {
    unsigned long long values = 0, judged = 0, hold = 0, band = 0, viol = 0, skip_overflow = 0, skip_out_range = 0, skip_headroom = 0,
                       up = 0, down = 0, exact_int = 0, ties_away = 0, ties_toward = 0;
    bool type_ok = true;
    int shown[3] = {0, 0, 0};
    const char *only_fn = nullptr, *only_out = nullptr;
};

template <typename R>
struct WorkOf {
    typedef typename std::conditional<std::is_floating_point<R>::value, R, double>::type type;
};

template <typename I>
inline auto mk(typename I::R x, BoolC<false>) { return au::make_quantity<typename I::Src>(x); }
template <typename I>
inline auto mk(typename I::R x, BoolC<true>) { return au::make_quantity_point<typename I::Src>(x); }

template <typename I, typename Rep>
struct ResultOf {
    typedef typename std::conditional<I::POINT, au::QuantityPoint<typename I::Tgt, Rep>,
                                      au::Quantity<typename I::Tgt, Rep>>::type type;
};

// 0 = holds, 1 = don't-care band, 2 = violation
inline int judge_round(RFn fn, ld e, ld band, ld r, ld *dist) {
    *dist = 0;
    if (!(std::fabs(r) <= std::numeric_limits<ld>::max()) || r != std::trunc(r)) {   // nan, inf or not integral
        *dist = std::numeric_limits<ld>::infinity();
        return 2;
    }
    bool ok;
    ld d;
    if (fn == FLOOR) {
        ok = (r <= e) && (e < r + 1);
        d = (r > e) ? r - e : e - (r + 1);
    } else if (fn == CEIL) {
        ok = (r - 1 < e) && (e <= r);
        d = (e > r) ? e - r : (r - 1) - e;
    } else {
        d = std::fabs(r - e) - 0.5L;
        ok = d <= 0;
    }
    if (ok) return 0;
    *dist = d;
    return d <= band ? 1 : 2;
}

template <typename X>
inline void rec(RStats &st, int id, RFn fn, const char *name, const char *out, X x, ld e, ld band, ld r) {
    if (st.only_fn && (std::strcmp(st.only_fn, name) != 0 || std::strcmp(st.only_out, out) != 0)) return;
    ld dist;
    const int v = judge_round(fn, e, band, r, &dist);
    ++st.judged;
    if (v == 0) ++st.hold;
    if (v == 1) ++st.band;
    if (fn == ROUND && out[0] == 0) {
        if (r > e) ++st.up;
        if (r < e) ++st.down;
        // information only (the statement does not fix the direction of ties): exact ties and where they went
        if (std::fabs(e - std::trunc(e)) == 0.5L) (std::fabs(r) > std::fabs(e) ? st.ties_away : st.ties_toward)++;
    }
    if (v == 2) {
        ++st.viol;
        if (st.shown[fn]++ < 3)
            std::printf("V {\"inst\":%d,\"fn\":\"%s\",\"out\":\"%s\",\"x\":\"%s\",\"r\":\"%s\",\"e\":\"%s\",\"band\":\"%s\"}\n", id,
                        name, out, num_str(x).c_str(), num_fp(r).c_str(), num_fp(e).c_str(), num_fp(band).c_str());
    }
}

template <typename Out>
inline bool out_can_hold(ld lo, ld hi, std::true_type) {   // integral output rep
    return lo >= (ld)std::numeric_limits<Out>::min() && hi <= (ld)std::numeric_limits<Out>::max();
}
template <typename Out>
inline bool out_can_hold(ld lo, ld hi, std::false_type) {
    return lo >= -(ld)std::numeric_limits<Out>::max() && hi <= (ld)std::numeric_limits<Out>::max();
}
template <typename Out>
inline ld out_eps(std::true_type) { return 0; }
template <typename Out>
inline ld out_eps(std::false_type) { return (ld)std::numeric_limits<Out>::epsilon(); }

template <typename I, typename Out, typename Q, typename W>
inline void explicit_forms(RStats &st, int id, const char *oname, typename I::R x, Q q, ld e, ld band, ld mag, W f, W c, W r) {
    typedef std::is_integral<Out> IsInt;
    const ld b = band + 8 * out_eps<Out>(IsInt()) * mag;
    // outside the statement: the integral result does not fit the requested output rep (static_cast would be UB)
    if (!out_can_hold<Out>(e - 1 - b, e + 1 + b, IsInt()) ||
        !out_can_hold<Out>(std::fmin((ld)f, (ld)r), std::fmax((ld)c, (ld)r), IsInt())) {
        ++st.skip_out_range;
        return;
    }
    const auto slot = I::slot();
    typedef typename I::Tgt Tgt;
    const Out a1 = au::floor_in<Out>(slot, q), a2 = au::ceil_in<Out>(slot, q), a3 = au::round_in<Out>(slot, q);
    const auto q1 = au::floor_as<Out>(slot, q);
    const auto q2 = au::ceil_as<Out>(slot, q);
    const auto q3 = au::round_as<Out>(slot, q);
    typedef const typename ResultOf<I, Out>::type Exp;
    if (!std::is_same<decltype(q1), Exp>::value || !std::is_same<decltype(q2), Exp>::value ||
        !std::is_same<decltype(q3), Exp>::value || !std::is_same<decltype(au::floor_in<Out>(slot, q)), Out>::value)
        st.type_ok = false;
    rec(st, id, FLOOR, "floor_in", oname, x, e, b, (ld)a1);
    rec(st, id, CEIL, "ceil_in", oname, x, e, b, (ld)a2);
    rec(st, id, ROUND, "round_in", oname, x, e, b, (ld)a3);
    rec(st, id, FLOOR, "floor_as", oname, x, e, b, (ld)q1.in(Tgt{}));
    rec(st, id, CEIL, "ceil_as", oname, x, e, b, (ld)q2.in(Tgt{}));
    rec(st, id, ROUND, "round_as", oname, x, e, b, (ld)q3.in(Tgt{}));
}

template <typename I>
inline void round_one(RStats &st, int id, typename I::R x) {
    typedef typename I::R R;
    typedef typename WorkOf<R>::type W;
    typedef typename I::Tgt Tgt;
    ++st.values;
    const ld xr = (ld)x * I::ratio();
    const ld e = xr + I::offset();
    const ld mag = std::fabs(xr) + std::fabs(I::offset());
    const ld wmax = (ld)std::numeric_limits<W>::max();
    if (!(mag <= wmax)) {   // the exact value is not a finite W: outside the statement
        ++st.skip_overflow;
        return;
    }
    // A point conversion has to pass through a unit in which the origin displacement is expressible (a sub-multiple of
    // both units), so values within a factor 2^16 of the largest finite W can overflow on the way: overflow, not rounding.
    if (I::POINT && !(mag <= wmax / 65536)) {
        ++st.skip_headroom;
        return;
    }
    const ld band = 8 * (ld)std::numeric_limits<W>::epsilon() * mag + (ld)std::numeric_limits<W>::denorm_min() +
                    8 * std::numeric_limits<ld>::epsilon() * mag;
    if (e == std::trunc(e)) ++st.exact_int;
    const auto q = mk<I>(x, BoolC<I::POINT>());
    const auto slot = I::slot();
    const W f = au::floor_in(slot, q), c = au::ceil_in(slot, q), r = au::round_in(slot, q);
    const auto qf = au::floor_as(slot, q);
    const auto qc = au::ceil_as(slot, q);
    const auto qr = au::round_as(slot, q);
    typedef const typename ResultOf<I, W>::type Exp;
    if (!std::is_same<decltype(qf), Exp>::value || !std::is_same<decltype(qc), Exp>::value ||
        !std::is_same<decltype(qr), Exp>::value || !std::is_same<decltype(au::round_in(slot, q)), W>::value)
        st.type_ok = false;
    rec(st, id, FLOOR, "floor_in", "", x, e, band, (ld)f);
    rec(st, id, CEIL, "ceil_in", "", x, e, band, (ld)c);
    rec(st, id, ROUND, "round_in", "", x, e, band, (ld)r);
    rec(st, id, FLOOR, "floor_as", "", x, e, band, (ld)qf.in(Tgt{}));
    rec(st, id, CEIL, "ceil_as", "", x, e, band, (ld)qc.in(Tgt{}));
    rec(st, id, ROUND, "round_as", "", x, e, band, (ld)qr.in(Tgt{}));
    explicit_forms<I, typename I::Out1>(st, id, I::out1(), x, q, e, band, mag, f, c, r);
    explicit_forms<I, typename I::Out2>(st, id, I::out2(), x, q, e, band, mag, f, c, r);
    explicit_forms<I, typename I::Out3>(st, id, I::out3(), x, q, e, band, mag, f, c, r);
}

template <typename R>
inline void add_int(std::vector<R> &v, ld t) {
    if (t >= (ld)std::numeric_limits<R>::min() && t <= (ld)std::numeric_limits<R>::max()) v.push_back((R)t);
}

// integral alphabet: every value in +-2^16 the rep holds, the rep's limits, neighbourhoods of the anchor integers and
// of the pre-images of k, k+-0.5 under the conversion
template <typename R>
inline std::vector<R> int_alphabet(ld ratio, ld offset) {
    std::vector<R> v;
    for (long k = -65536; k <= 65536; ++k) add_int(v, (ld)k);
    const ld offs[] = {0.0L, -0.5L, 0.5L};
    for (ld k : anchor_ints())
        for (int d = -2; d <= 2; ++d) {
            add_int(v, k + d);
            for (ld o : offs) add_int(v, std::floor((k + o - offset) / ratio) + d);
        }
    for (int d = 0; d <= 2; ++d) {
        add_int(v, (ld)std::numeric_limits<R>::max() - d);
        add_int(v, (ld)std::numeric_limits<R>::min() + d);
    }
    return v;
}
template <typename I>
inline std::vector<typename I::R> round_values(std::true_type) {
    return int_alphabet<typename I::R>(I::ratio(), I::offset());
}
template <typename I>
inline std::vector<typename I::R> round_values(std::false_type) {
    return fp_alphabet<typename I::R>(I::ratio(), I::offset(), 65536);
}

template <typename I>
void run_round(int id) {
    RStats st;
    const auto vals = round_values<I>(std::is_integral<typename I::R>());
    for (auto x : vals) round_one<I>(st, id, x);
    typedef decltype(au::round_as(I::slot(), mk<I>(typename I::R(), BoolC<I::POINT>()))) AsT;
    std::printf("S {\"inst\":%d,\"values\":%llu,\"judged\":%llu,\"hold\":%llu,\"band\":%llu,\"viol\":%llu,\"skip_overflow\":%llu,"
                "\"skip_out_range\":%llu,\"skip_headroom\":%llu,\"up\":%llu,\"down\":%llu,\"exact_int\":%llu,\"ties_away\":%llu,\"ties_toward\":%llu,\"type_ok\":%d,%s}\n",
                id, st.values, st.judged, st.hold, st.band, st.viol, st.skip_overflow, st.skip_out_range, st.skip_headroom, st.up, st.down,
                st.exact_int, st.ties_away, st.ties_toward, (int)st.type_ok, vf::unit_json<typename AsT::Unit>().c_str());
    std::fflush(stdout);
}

// replay of one (instance, value, function)
template <typename I>
void run_round_single(int id, typename I::R x, const char *fn, const char *out) {
    RStats st;
    st.only_fn = fn;
    st.only_out = out;
    round_one<I>(st, id, x);
    std::printf("S {\"inst\":%d,\"values\":%llu,\"judged\":%llu,\"viol\":%llu,\"type_ok\":%d}\n", id, st.values, st.judged,
                st.viol, (int)st.type_ok);
}

}  // namespace c15
