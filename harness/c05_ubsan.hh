// C05 UB observer: own implementation of clang's *minimal* UBSan runtime handlers.
//
// Why not the `__ubsan_on_report` hook of harness/sweep.hh: the full UBSan runtime reports every
// instrumented source location at most ONCE per process in recover mode (handlers call
// `Loc.acquire()`; measured: 5 signed overflows at one site -> 1 report, 1 hook call).  A sweep
// that first meets a location on a lossy input (inside a checker) would therefore be blind at the
// same location on a later checker-cleared input.  With `-fsanitize-minimal-runtime
// -fno-sanitize-link-runtime` the compiler calls the argument-less `__ubsan_handle_*_minimal`
// functions below on EVERY event; they only count.  Under g++ (no sanitizer) they are dead code.
#pragma once
#include <cstdlib>

extern "C" {
volatile unsigned long vf5_ub_arith = 0;   // add/sub/mul/negate/divrem overflow (signed UB, or
                                           // unsigned wrap when unsigned-integer-overflow is on)
volatile unsigned long vf5_ub_fcast = 0;   // float-cast-overflow
volatile unsigned long vf5_ub_other = 0;   // everything else (shift, bool/enum load, ...)
#define VF5_H(name, ctr)                                                  \
    void __ubsan_handle_##name##_minimal(void) { ctr = ctr + 1; }         \
    void __ubsan_handle_##name##_minimal_abort(void) { std::abort(); }
VF5_H(add_overflow, vf5_ub_arith)
VF5_H(sub_overflow, vf5_ub_arith)
VF5_H(mul_overflow, vf5_ub_arith)
VF5_H(negate_overflow, vf5_ub_arith)
VF5_H(divrem_overflow, vf5_ub_arith)
VF5_H(float_cast_overflow, vf5_ub_fcast)
VF5_H(type_mismatch, vf5_ub_other)
VF5_H(alignment_assumption, vf5_ub_other)
VF5_H(shift_out_of_bounds, vf5_ub_other)
VF5_H(out_of_bounds, vf5_ub_other)
VF5_H(builtin_unreachable, vf5_ub_other)
VF5_H(missing_return, vf5_ub_other)
VF5_H(vla_bound_not_positive, vf5_ub_other)
VF5_H(load_invalid_value, vf5_ub_other)
VF5_H(invalid_builtin, vf5_ub_other)
VF5_H(invalid_objc_cast, vf5_ub_other)
VF5_H(function_type_mismatch, vf5_ub_other)
VF5_H(implicit_conversion, vf5_ub_other)
VF5_H(nonnull_arg, vf5_ub_other)
VF5_H(nonnull_return, vf5_ub_other)
VF5_H(nullability_arg, vf5_ub_other)
VF5_H(nullability_return, vf5_ub_other)
VF5_H(pointer_overflow, vf5_ub_other)
VF5_H(cfi_check_fail, vf5_ub_other)
#undef VF5_H
}

namespace vf5 {
struct UbSnap {
    unsigned long arith, fcast, other;
    unsigned long total() const { return arith + fcast + other; }
};
inline UbSnap ub_now() { return UbSnap{vf5_ub_arith, vf5_ub_fcast, vf5_ub_other}; }
inline UbSnap ub_since(const UbSnap &a) {
    return UbSnap{vf5_ub_arith - a.arith, vf5_ub_fcast - a.fcast, vf5_ub_other - a.other};
}
}  // namespace vf5
