// C09 value-sweep harness: QuantityPoint conversions, point-point, point+-quantity, comparisons.
// The oracle side uses no Au code.  All affine constants (integers, exact) come from the Python
// model (vf/c09_sweep.py); the arithmetic is __int128 for integral computations and __float128 when
// the library computes in a floating rep.  Generated instance structs are documented at each runner.
#pragma once
#include <cmath>
#include <csignal>
#include <unistd.h>
#include "sweep.hh"
#if defined(__cpp_impl_three_way_comparison) && __cpp_impl_three_way_comparison >= 201907L
#include <compare>
#define C09_HAS_SS 1
#else
#define C09_HAS_SS 0
#endif

namespace c09 {
using vf::i128;
typedef __float128 f128;
template <bool B>
using BoolC = std::integral_constant<bool, B>;

inline std::string s128(i128 v) {
    return v < 0 ? "-" + vf::u128_str((vf::u128)(-v)) : vf::u128_str((vf::u128)v);
}
inline f128 fabsq_(f128 x) { return x < 0 ? -x : x; }
inline f128 fmax3(f128 a, f128 b, f128 c) {
    a = fabsq_(a), b = fabsq_(b), c = fabsq_(c);
    return a > b ? (a > c ? a : c) : (b > c ? b : c);
}
template <typename T>
inline f128 ulp_of(f128 m) {
    T t = static_cast<T>(m);
    if (t < 0) t = -t;
    const T n = std::nextafter(t, std::numeric_limits<T>::infinity());
    return (f128)n - (f128)t;
}
template <typename T, bool F = std::is_floating_point<T>::value>
struct Str {
    static std::string get(T x) { return s128((i128)x); }
};
template <typename T>
struct Str<T, true> {
    static std::string get(T x) {
        char buf[64];
        std::snprintf(buf, sizeof buf, "%.21Lg", (long double)x);
        return buf;
    }
};
inline std::string fstr(f128 x) { return Str<long double>::get((long double)x); }
template <typename T>
constexpr i128 lo() {
    return std::is_signed<T>::value ? -(i128)vf::abs_min<T>() : (i128)0;
}
template <typename T>
constexpr i128 hi() {
    return (i128)vf::abs_max<T>();
}
template <typename P>
constexpr typename P::Rep rawp(P p) {   // stored value of a QuantityPoint
    return p.template in<typename P::Rep>(typename P::Unit{});
}
template <typename Q>
constexpr typename Q::Rep rawq(Q q) {   // stored value of a Quantity
    return q.template in<typename Q::Rep>(typename Q::Unit{});
}

struct Stats {
    unsigned long long gen = 0, judged = 0, ops = 0, skip_x = 0, skip_mid = 0, skip_scale = 0,
                       skip_inexact = 0, skip_result = 0, band = 0, n_lt = 0, n_eq = 0, n_gt = 0,
                       viol = 0, ubsan = 0, skip_sign = 0, compound = 0;
};
enum Slot { S_CONV, S_CONV_POLICY, S_CMP, S_CONS, S_ANTI, S_SS, S_SUB, S_SHIFT, S_UB, NSLOT };
struct Current {
    int id;
    std::string a, b;
};
static Current g_cur = {-1, "", ""};
extern "C" inline void c09_on_trap(int sig) {
    std::printf("V {\"inst\":%d,\"kind\":\"trap\",\"op\":\"signal %d\",\"order\":0,\"x1\":\"%s\",\"x2\":\"%s\","
                "\"got\":\"fatal signal\",\"want\":\"no trap\"}\n", g_cur.id, sig, g_cur.a.c_str(), g_cur.b.c_str());
    std::fflush(stdout);
    _exit(3);
}
struct Reporter {
    int id;
    Stats st;
    int shown[NSLOT] = {};
    Reporter() {
        std::signal(SIGFPE, c09_on_trap);
        std::signal(SIGILL, c09_on_trap);
        std::signal(SIGSEGV, c09_on_trap);
    }
    void v(Slot slot, const char *kind, const char *op, int order, const std::string &x1,
           const std::string &x2, const std::string &got, const std::string &want) {
        ++st.viol;
        if (shown[slot]++ < 3)
            std::printf("V {\"inst\":%d,\"kind\":\"%s\",\"op\":\"%s\",\"order\":%d,\"x1\":\"%s\",\"x2\":\"%s\","
                        "\"got\":\"%s\",\"want\":\"%s\"}\n",
                        id, kind, op, order, x1.c_str(), x2.c_str(), got.c_str(), want.c_str());
    }
    void done(const char *type) {
        std::printf("S {\"inst\":%d,\"type\":\"%s\",\"gen\":%llu,\"judged\":%llu,\"ops\":%llu,\"skip_x\":%llu,"
                    "\"skip_mid\":%llu,\"skip_scale\":%llu,\"skip_inexact\":%llu,\"skip_result\":%llu,"
                    "\"band\":%llu,\"lt\":%llu,\"eq\":%llu,\"gt\":%llu,\"viol\":%llu,\"ubsan\":%llu,"
                    "\"skip_sign\":%llu,\"compound\":%llu}\n",
                    id, type, st.gen, st.judged, st.ops, st.skip_x, st.skip_mid, st.skip_scale,
                    st.skip_inexact, st.skip_result, st.band, st.n_lt, st.n_eq, st.n_gt, st.viol, st.ubsan,
                    st.skip_sign, st.compound);
        std::fflush(stdout);
    }
};
static const char *const CMP_NAMES[6] = {"<", "==", ">", "<=", ">=", "!="};
static const int FLT_ULPS = 8;

// =============================================================================== conversions
// I: U1,R1 (source), U2,R2 (target unit, NewRep); CF (floating type the library computes in, or
//    double when the computation is integral); constants (i128):
//    KX, KD : displaced intermediate  t = x*KX + KD  in the common unit of (U1, displacement unit)
//    N, D   : result = t*N/D
//    CLO,CHI: range of the library's intermediate rep (IntermediateRep<R1,R2>), CUNS: it is unsigned
//    CFLOAT : the intermediate rep is floating
//    CI     : coerce_in<R2>/coerce_as<R2>/in<R2>/as<R2> compile;  SAME: R1==R2;
//    POL    : the policy-checked p.in(U2{}) / p.as(U2{}) compile (only asked when SAME)
template <typename I>
struct ConvRun : Reporter {
    typedef typename I::R1 R1;
    typedef typename I::R2 R2;
    typedef au::QuantityPoint<typename I::U1, R1> P1;
    std::string sx;

    void check_int(R2 got, i128 want, const char *op, Slot slot) {
        ++st.ops;
        if ((i128)got != want) v(slot, "conversion", op, 0, sx, "", s128((i128)got), s128(want));
    }
    void check_flt(R2 got, f128 want, f128 tol, const char *op, Slot slot) {
        ++st.ops;
        if (!(fabsq_((f128)got - want) <= tol))
            v(slot, "conversion", op, 0, sx, "", Str<R2>::get(got), fstr(want) + " +- " + fstr(tol));
    }
    template <typename W, typename T>
    void same_forms(BoolC<false>, P1, W, T) {}
    template <typename W, typename T>
    void same_forms(BoolC<true>, P1 p, W want, T tol) {
        typename I::U2 u2{};
        judge(p.coerce_in(u2), want, tol, "coerce_in(u)", S_CONV);
        judge(rawp(p.coerce_as(u2)), want, tol, "coerce_as(u)", S_CONV);
    }
    // the same conversions with the target named by its point maker (unit-slot spelling)
    template <typename W, typename T>
    void maker_forms(BoolC<false>, P1, W, T) {}
    template <typename W, typename T>
    void maker_forms(BoolC<true>, P1 p, W want, T tol) {
        judge(p.template in<R2>(au::QuantityPointMaker<typename I::U2>{}), want, tol, "in<T>(maker)", S_CONV);
        judge(rawp(p.template as<R2>(au::QuantityPointMaker<typename I::U2>{})), want, tol, "as<T>(maker)", S_CONV);
    }
    template <typename W, typename T>
    void policy_forms(BoolC<false>, P1, W, T) {}
    template <typename W, typename T>
    void policy_forms(BoolC<true>, P1 p, W want, T tol) {
        typename I::U2 u2{};
        judge(p.in(u2), want, tol, "in(u)", S_CONV_POLICY);
        judge(rawp(p.as(u2)), want, tol, "as(u)", S_CONV_POLICY);
        judge(rawp(p.as(au::QuantityPointMaker<typename I::U2>{})), want, tol, "as(maker)", S_CONV_POLICY);
    }
    void judge(R2 got, i128 want, int, const char *op, Slot s) { check_int(got, want, op, s); }
    void judge(R2 got, f128 want, f128 tol, const char *op, Slot s) { check_flt(got, want, tol, op, s); }

    // the implicit converting constructor (only where the library declares the conversion implicit)
    template <typename W, typename T>
    void ctor_form(BoolC<false>, P1, W, T) {}
    template <typename W, typename T>
    void ctor_form(BoolC<true>, P1 p, W want, T tol) {
        const au::QuantityPoint<typename I::U2, R2> p2 = p;
        judge(rawp(p2), want, tol, "implicit-ctor", S_CONV);
    }

    template <typename W, typename T>
    void all_forms(P1 p, W want, T tol) {
        typename I::U2 u2{};
        const unsigned long ub0 = vf_ubsan_reports;
        ctor_form(BoolC<I::CTOR>{}, p, want, tol);
        judge(p.template coerce_in<R2>(u2), want, tol, "coerce_in<T>(u)", S_CONV);
        judge(rawp(p.template coerce_as<R2>(u2)), want, tol, "coerce_as<T>(u)", S_CONV);
        judge(p.template in<R2>(u2), want, tol, "in<T>(u)", S_CONV);
        judge(rawp(p.template as<R2>(u2)), want, tol, "as<T>(u)", S_CONV);
        maker_forms(BoolC<I::MAKER>{}, p, want, tol);
        same_forms(BoolC<I::SAME>{}, p, want, tol);
        policy_forms(BoolC<I::POL>{}, p, want, tol);
        if (vf_ubsan_reports != ub0) {
            ++st.ubsan;
            v(S_UB, "ubsan", "conversion", 0, sx, "", "undefined behaviour reported", "none");
        }
    }

    void value(R1 x) {
        ++st.gen;
        g_cur.id = id;
        sx = Str<R1>::get(x);
        g_cur.a = sx;
        const P1 p = au::make_quantity_point<typename I::U1>(x);
        value_(BoolC<I::CFLOAT>{}, p, x);
    }
    void value_(BoolC<false>, P1 p, R1 x) {
        {
            const i128 xi = (i128)x;
            i128 t;
            if (I::CUNS && I::CHI() < ((i128)1 << 31)) {
                // unsigned intermediate narrower than int: integral promotion breaks modular arithmetic, so
                // the displacement itself (KD <= 0 means a non-negative displacement is subtracted) and every
                // partial result must be representable
                if (I::KD() > 0) { ++st.skip_mid; return; }
                const i128 xs = xi * I::KX();
                if (xs > I::CHI() || -I::KD() > I::CHI()) { ++st.skip_mid; return; }
                t = xs + I::KD();
                if (t < 0) { ++st.skip_mid; return; }
            } else if (I::CUNS) {
                t = xi * I::KX() + I::KD();      // modular arithmetic is exact iff the true t fits
                if (t < 0 || t > I::CHI()) { ++st.skip_mid; return; }
            } else {
                if (xi < I::CLO() || xi > I::CHI()) { ++st.skip_x; return; }
                const i128 xs = xi * I::KX();
                if (xs < I::CLO() || xs > I::CHI()) { ++st.skip_mid; return; }
                t = xs + I::KD();
                if (t < I::CLO() || t > I::CHI()) { ++st.skip_mid; return; }
            }
            const i128 tn = t * I::N();
            if (tn < I::CLO() || tn > I::CHI()) { ++st.skip_scale; return; }
            if (tn % I::D() != 0) { ++st.skip_inexact; return; }
            const i128 res = tn / I::D();
            if (res < lo<R2>() || res > hi<R2>()) { ++st.skip_result; return; }
            ++st.judged;
            all_forms(p, res, 0);
        }
    }
    void value_(BoolC<true>, P1 p, R1 x) {
        {
            typedef typename I::CF CF;
            const f128 xe = (f128)x;
            const f128 xs = xe * (f128)I::KX(), kd = (f128)I::KD(), t = xs + kd;
            const f128 scale = (f128)I::N() / (f128)I::D();
            const f128 res = t * scale;
            const f128 m = fmax3(xs, kd, t) * scale;
            if (m > (f128)std::numeric_limits<CF>::max() / 8 || fmax3(xs, kd, t) > (f128)std::numeric_limits<CF>::max() / 8) {
                ++st.skip_mid;
                return;
            }
            f128 tol = FLT_ULPS * ulp_of<CF>(m);
            if (std::is_floating_point<R2>::value) {
                if (fabsq_(res) > (f128)std::numeric_limits<R2>::max() / 8) { ++st.skip_result; return; }
                tol += ulp_of<R2>(fabsq_(res));
            } else {
                tol += 1;   // the final float -> integer cast truncates
                if (res - tol <= (f128)lo<R2>() || res + tol >= (f128)hi<R2>()) { ++st.skip_result; return; }
            }
            ++st.judged;
            all_forms(p, res, tol);
        }
    }
};

template <typename T, bool F = std::is_floating_point<T>::value>
struct Feed {   // integral source rep: the integer itself
    template <typename R>
    static void go(R &rn, i128 v) { rn.value(static_cast<T>(v)); }
};
template <typename T>
struct Feed<T, true> {   // floating source rep: the integer and the integer + 1/4
    template <typename R>
    static void go(R &rn, i128 v) {
        rn.value(static_cast<T>(v));
        rn.value(static_cast<T>(v) + T(0.25));
        rn.value(static_cast<T>(v) + T(1) / T(3));   // not representable in any narrower floating type
    }
};

template <typename I>
void run_conv(int id, const vf::Interval *A, int na) {
    ConvRun<I> rn;
    rn.id = id;
    for (int i = 0; i < na; ++i)
        for (i128 x = A[i].lo; x <= A[i].hi; ++x) Feed<typename I::R1>::go(rn, x);
    rn.done("conv");
}

// =============================================================================== point (op) point
// I: U1,R1,U2,R2; C = model's common rep; CF floating type for ulp; CFLOAT, CUNS;
//    A1,B1,A2,B2: position of operand i in the common point unit  y_i = x_i*A_i + B_i  (B_i >= 0);
//    SUB: p1-p2 compiles, SS: <=> compiles (C++20 builds)
template <typename I>
struct PairRun : Reporter {
    typedef typename I::R1 R1;
    typedef typename I::R2 R2;
    typedef typename I::C C;
    typedef au::QuantityPoint<typename I::U1, R1> P1;
    typedef au::QuantityPoint<typename I::U2, R2> P2;
    bool r[2][6];
    std::string sx1, sx2;

    void cmp(P1 p1, P2 p2, const bool e[2][6], bool strict) {
        const bool rr[2][6] = {{p1 < p2, p1 == p2, p1 > p2, p1 <= p2, p1 >= p2, p1 != p2},
                               {p2 < p1, p2 == p1, p2 > p1, p2 <= p1, p2 >= p1, p2 != p1}};
        st.ops += 12;
        for (int o = 0; o < 2; ++o) {
            for (int k = 0; k < 6; ++k) {
                r[o][k] = rr[o][k];
                if (strict && rr[o][k] != e[o][k])
                    v(S_CMP, "cmp-exact", CMP_NAMES[k], o, sx1, sx2, rr[o][k] ? "true" : "false",
                      e[o][k] ? "true" : "false");
            }
            if ((int)rr[o][0] + (int)rr[o][1] + (int)rr[o][2] != 1 || rr[o][3] != (rr[o][0] || rr[o][1]) ||
                rr[o][4] != (rr[o][2] || rr[o][1]) || rr[o][5] != !rr[o][1])
                v(S_CONS, "cmp-consistency", "six", o, sx1, sx2, "inconsistent", "exactly one of <,==,>; rest derived");
        }
        static const int mirror[6] = {2, 1, 0, 4, 3, 5};
        for (int k = 0; k < 6; ++k)
            if (rr[0][k] != rr[1][mirror[k]])
                v(S_ANTI, "antisymmetry", CMP_NAMES[k], 0, sx1, sx2, rr[0][k] ? "true" : "false",
                  "mirror of the swapped comparison");
        if (!strict) ++st.band;
        st.n_lt += rr[0][0];
        st.n_eq += rr[0][1];
        st.n_gt += rr[0][2];
    }
    void spaceship(BoolC<false>, P1, P2, const bool[2][6], bool) {}
#if C09_HAS_SS
    void spaceship(BoolC<true>, P1 p1, P2 p2, const bool e[2][6], bool strict) {
        const auto o1 = p1 <=> p2;
        const auto o2 = p2 <=> p1;
        const bool s[2][3] = {{o1 < 0, o1 == 0, o1 > 0}, {o2 < 0, o2 == 0, o2 > 0}};
        st.ops += 2;
        for (int o = 0; o < 2; ++o)
            for (int k = 0; k < 3; ++k) {
                const char *got = s[o][0] ? "less" : s[o][1] ? "equal" : s[o][2] ? "greater" : "unordered";
                if (s[o][k] != r[o][k]) {
                    v(S_SS, "spaceship-vs-six", "<=>", o, sx1, sx2, got,
                      r[o][0] ? "less (operator<)" : r[o][1] ? "equal (operator==)" : "greater (operator>)");
                    break;
                }
                if (strict && s[o][k] != e[o][k]) {
                    v(S_SS, "spaceship-exact", "<=>", o, sx1, sx2, got,
                      e[o][0] ? "less" : e[o][1] ? "equal" : "greater");
                    break;
                }
            }
    }
#endif
    void sub_int(BoolC<false>, P1, P2, i128, i128) {}
    void sub_int(BoolC<true>, P1 p1, P2 p2, i128 y1, i128 y2) {
        // the rep of the returned displacement (common_type of the operand reps: NOT promoted for equal sub-int reps)
        typedef decltype(rawq(p1 - p2)) PR;
        const i128 d1 = y1 - y2, d2 = y2 - y1;
        if (d1 >= lo<PR>() && d1 <= hi<PR>()) {
            const i128 g = (i128)rawq(p1 - p2);
            ++st.ops;
            if (g != d1) v(S_SUB, "point-difference", "-", 0, sx1, sx2, s128(g), s128(d1));
        } else ++st.skip_result;
        if (d2 >= lo<PR>() && d2 <= hi<PR>()) {
            const i128 g = (i128)rawq(p2 - p1);
            ++st.ops;
            if (g != d2) v(S_SUB, "point-difference", "-", 1, sx1, sx2, s128(g), s128(d2));
        } else ++st.skip_result;
    }
    void sub_flt(BoolC<false>, P1, P2, f128, f128, f128) {}
    void sub_flt(BoolC<true>, P1 p1, P2 p2, f128 y1, f128 y2, f128 tol) {
        const f128 g1 = (f128)rawq(p1 - p2), g2 = (f128)rawq(p2 - p1);
        st.ops += 2;
        if (!(fabsq_(g1 - (y1 - y2)) <= tol)) v(S_SUB, "point-difference", "-", 0, sx1, sx2, fstr(g1), fstr(y1 - y2));
        if (!(fabsq_(g2 - (y2 - y1)) <= tol)) v(S_SUB, "point-difference", "-", 1, sx1, sx2, fstr(g2), fstr(y2 - y1));
    }

    void pair(R1 x1, R2 x2) {
        ++st.gen;
        g_cur.id = id;
        sx1 = g_cur.a = Str<R1>::get(x1);
        sx2 = g_cur.b = Str<R2>::get(x2);
        const P1 p1 = au::make_quantity_point<typename I::U1>(x1);
        const P2 p2 = au::make_quantity_point<typename I::U2>(x2);
        const unsigned long ub0 = vf_ubsan_reports;
        pair_(BoolC<I::CFLOAT>{}, p1, p2, x1, x2);
        if (vf_ubsan_reports != ub0) {
            ++st.ubsan;
            v(S_UB, "ubsan", "point-point", 0, sx1, sx2, "undefined behaviour reported", "none");
        }
    }
    void pair_(BoolC<false>, P1 p1, P2 p2, R1 x1, R2 x2) {
        {
            const i128 v1 = (i128)x1, v2 = (i128)x2, cl = lo<C>(), ch = hi<C>();
            if (v1 < cl || v1 > ch || v2 < cl || v2 > ch) {
                // a negative signed operand against an unsigned common rep is its own bucket (the statement has no proviso
                // for comparisons, the library converts the operand to the unsigned common rep first)
                if (cl == 0 && (v1 < 0 || v2 < 0) && v1 <= ch && v2 <= ch) ++st.skip_sign; else ++st.skip_x;
                return;
            }
            const i128 s1 = v1 * I::A1(), s2 = v2 * I::A2();
            if (s1 < cl || s1 > ch || s2 < cl || s2 > ch) { ++st.skip_mid; return; }
            const i128 y1 = s1 + I::B1(), y2 = s2 + I::B2();
            if (y1 < cl || y1 > ch || y2 < cl || y2 > ch) { ++st.skip_mid; return; }
            ++st.judged;
            const bool e[2][6] = {{y1 < y2, y1 == y2, y1 > y2, y1 <= y2, y1 >= y2, y1 != y2},
                                  {y2 < y1, y2 == y1, y2 > y1, y2 <= y1, y2 >= y1, y2 != y1}};
            cmp(p1, p2, e, true);
            spaceship(BoolC<I::SS>{}, p1, p2, e, true);
            sub_int(BoolC<I::SUB>{}, p1, p2, y1, y2);
        }
    }
    void pair_(BoolC<true>, P1 p1, P2 p2, R1 x1, R2 x2) {
        {
            typedef typename I::CF CF;
            const f128 s1 = (f128)x1 * (f128)I::A1(), s2 = (f128)x2 * (f128)I::A2();
            const f128 y1 = s1 + (f128)I::B1(), y2 = s2 + (f128)I::B2();
            f128 m = fmax3(s1, s2, (f128)I::B1());
            m = fmax3(m, (f128)I::B2(), fmax3(y1, y2, 0));
            if (m > (f128)std::numeric_limits<CF>::max() / 8) { ++st.skip_mid; return; }
            ++st.judged;
            const f128 tol = FLT_ULPS * ulp_of<CF>(m);
            const bool e[2][6] = {{y1 < y2, y1 == y2, y1 > y2, y1 <= y2, y1 >= y2, y1 != y2},
                                  {y2 < y1, y2 == y1, y2 > y1, y2 <= y1, y2 >= y1, y2 != y1}};
            const bool strict = fabsq_(y1 - y2) > tol;
            cmp(p1, p2, e, strict);
            spaceship(BoolC<I::SS>{}, p1, p2, e, strict);
            sub_flt(BoolC<I::SUB>{}, p1, p2, y1, y2, tol);
        }
    }
};

template <typename T, bool F = std::is_floating_point<T>::value>
struct Fits {
    static bool ok(i128 v) { return v >= lo<T>() && v <= hi<T>(); }
};
template <typename T>
struct Fits<T, true> {
    static bool ok(i128) { return true; }
};

// pairs: (window W1) x (small alphabet F2 + the values of operand 2 nearest the same position, +-2)
//        and symmetrically (window W2) x (F1 + nearest).
template <typename I>
void run_pair(int id, const vf::Interval *W1, int nw1, const vf::Interval *F1, int nf1,
              const vf::Interval *W2, int nw2, const vf::Interval *F2, int nf2) {
    typedef typename I::R1 R1;
    typedef typename I::R2 R2;
    PairRun<I> rn;
    rn.id = id;
    for (int i = 0; i < nw1; ++i)
        for (i128 x = W1[i].lo; x <= W1[i].hi; ++x) {
            for (int j = 0; j < nf2; ++j)
                for (i128 y = F2[j].lo; y <= F2[j].hi; ++y) rn.pair(static_cast<R1>(x), static_cast<R2>(y));
            // nearest: x*A1 + B1 == y*A2 + B2
            const i128 num = x * I::A1() + I::B1() - I::B2();
            const i128 c = num / I::A2();
            for (i128 y = c - 2; y <= c + 2; ++y)
                if (Fits<R2>::ok(y)) rn.pair(static_cast<R1>(x), static_cast<R2>(y));
        }
    for (int i = 0; i < nw2; ++i)
        for (i128 y = W2[i].lo; y <= W2[i].hi; ++y) {
            for (int j = 0; j < nf1; ++j)
                for (i128 x = F1[j].lo; x <= F1[j].hi; ++x) rn.pair(static_cast<R1>(x), static_cast<R2>(y));
            const i128 num = y * I::A2() + I::B2() - I::B1();
            const i128 c = num / I::A1();
            for (i128 x = c - 2; x <= c + 2; ++x)
                if (Fits<R1>::ok(x)) rn.pair(static_cast<R1>(x), static_cast<R2>(y));
        }
    rn.done("pair");
}

// =============================================================================== point +- quantity
// I: UP,RP (point), UQ,RQ (quantity); C common rep, CF, CFLOAT; AP, AQ, B: raw value of the result
//    point in its own unit = xP*AP + B +- xQ*AQ
template <typename I>
struct ShiftRun : Reporter {
    typedef typename I::RP RP;
    typedef typename I::RQ RQ;
    typedef typename I::C C;
    std::string sx1, sx2;
    void pair(RP xp, RQ xq) {
        ++st.gen;
        g_cur.id = id;
        sx1 = g_cur.a = Str<RP>::get(xp);
        sx2 = g_cur.b = Str<RQ>::get(xq);
        const auto p = au::make_quantity_point<typename I::UP>(xp);
        const auto q = au::make_quantity<typename I::UQ>(xq);
        const unsigned long ub0 = vf_ubsan_reports;
        pair_(BoolC<I::CFLOAT>{}, p, q, xp, xq);
        if (vf_ubsan_reports != ub0) {
            ++st.ubsan;
            v(S_UB, "ubsan", "point+-quantity", 0, sx1, sx2, "undefined behaviour reported", "none");
        }
    }
    // p += q; p -= q with q of exactly the point's Diff type (no unit or rep conversion involved)
    template <typename P, typename Q>
    void compound_int(BoolC<false>, P, Q, i128, i128) {}
    template <typename P, typename Q>
    void compound_int(BoolC<true>, P p, Q q, i128 vp, i128 vq) {
        const i128 plus = vp + vq, minus = vp - vq;
        if (plus >= lo<RP>() && plus <= hi<RP>()) {
            P r = p;
            r += q;
            const i128 g1 = (i128)rawp(r);
            r -= q;
            const i128 g2 = (i128)rawp(r);
            st.ops += 2;
            ++st.compound;
            if (g1 != plus) v(S_SHIFT, "point-shift", "p+=q", 0, sx1, sx2, s128(g1), s128(plus));
            if (g2 != vp) v(S_SHIFT, "point-shift", "p+=q;p-=q", 0, sx1, sx2, s128(g2), s128(vp));
        }
        if (minus >= lo<RP>() && minus <= hi<RP>()) {
            P r = p;
            r -= q;
            const i128 g = (i128)rawp(r);
            ++st.ops;
            ++st.compound;
            if (g != minus) v(S_SHIFT, "point-shift", "p-=q", 0, sx1, sx2, s128(g), s128(minus));
        }
    }
    template <typename P, typename Q>
    void compound_flt(BoolC<false>, P, Q, f128, f128, f128) {}
    template <typename P, typename Q>
    void compound_flt(BoolC<true>, P p, Q q, f128 vp, f128 vq, f128 tol) {
        P r = p;
        r += q;
        const f128 g1 = (f128)rawp(r);
        P r2 = p;
        r2 -= q;
        const f128 g2 = (f128)rawp(r2);
        st.ops += 2;
        ++st.compound;
        if (!(fabsq_(g1 - (vp + vq)) <= tol)) v(S_SHIFT, "point-shift", "p+=q", 0, sx1, sx2, fstr(g1), fstr(vp + vq));
        if (!(fabsq_(g2 - (vp - vq)) <= tol)) v(S_SHIFT, "point-shift", "p-=q", 0, sx1, sx2, fstr(g2), fstr(vp - vq));
    }

    template <typename P, typename Q>
    void pair_(BoolC<false>, P p, Q q, RP xp, RQ xq) {
        {
            // the rep the library returns for p + q (common_type of the operand reps: NOT promoted for equal sub-int reps)
            typedef decltype(rawp(p + q)) PR;
            const i128 vp = (i128)xp, vq = (i128)xq, cl = lo<C>(), ch = hi<C>();
            if (vp < cl || vp > ch || vq < cl || vq > ch) { ++st.skip_x; return; }
            const i128 sp = vp * I::AP(), sq = vq * I::AQ();
            if (sp < cl || sp > ch || sq < cl || sq > ch) { ++st.skip_mid; return; }
            const i128 yp = sp + I::B();
            if (yp < cl || yp > ch) { ++st.skip_mid; return; }
            ++st.judged;
            const i128 plus = yp + sq, minus = yp - sq;
            if (plus >= lo<PR>() && plus <= hi<PR>()) {
                const i128 g1 = (i128)rawp(p + q), g2 = (i128)rawp(q + p);
                st.ops += 2;
                if (g1 != plus) v(S_SHIFT, "point-shift", "p+q", 0, sx1, sx2, s128(g1), s128(plus));
                if (g2 != plus) v(S_SHIFT, "point-shift", "q+p", 0, sx1, sx2, s128(g2), s128(plus));
            } else ++st.skip_result;
            if (minus >= lo<PR>() && minus <= hi<PR>()) {
                const i128 g = (i128)rawp(p - q);
                ++st.ops;
                if (g != minus) v(S_SHIFT, "point-shift", "p-q", 0, sx1, sx2, s128(g), s128(minus));
            } else ++st.skip_result;
            compound_int(BoolC<I::COMPOUND>{}, p, q, vp, vq);
        }
    }
    template <typename P, typename Q>
    void pair_(BoolC<true>, P p, Q q, RP xp, RQ xq) {
        {
            typedef typename I::CF CF;
            const f128 sp = (f128)xp * (f128)I::AP(), sq = (f128)xq * (f128)I::AQ(), yp = sp + (f128)I::B();
            const f128 m = fmax3(fmax3(sp, sq, yp), yp + sq, yp - sq);
            if (m > (f128)std::numeric_limits<CF>::max() / 8) { ++st.skip_mid; return; }
            ++st.judged;
            const f128 tol = FLT_ULPS * ulp_of<CF>(m);
            const f128 g1 = (f128)rawp(p + q), g2 = (f128)rawp(q + p), g3 = (f128)rawp(p - q);
            st.ops += 3;
            if (!(fabsq_(g1 - (yp + sq)) <= tol)) v(S_SHIFT, "point-shift", "p+q", 0, sx1, sx2, fstr(g1), fstr(yp + sq));
            if (!(fabsq_(g2 - (yp + sq)) <= tol)) v(S_SHIFT, "point-shift", "q+p", 0, sx1, sx2, fstr(g2), fstr(yp + sq));
            if (!(fabsq_(g3 - (yp - sq)) <= tol)) v(S_SHIFT, "point-shift", "p-q", 0, sx1, sx2, fstr(g3), fstr(yp - sq));
            compound_flt(BoolC<I::COMPOUND>{}, p, q, (f128)xp, (f128)xq, tol);
        }
    }
};

template <typename I>
void run_shift(int id, const vf::Interval *W, int nw, const vf::Interval *F, int nf) {
    ShiftRun<I> rn;
    rn.id = id;
    for (int i = 0; i < nw; ++i)
        for (i128 x = W[i].lo; x <= W[i].hi; ++x)
            for (int j = 0; j < nf; ++j)
                for (i128 y = F[j].lo; y <= F[j].hi; ++y)
                    rn.pair(static_cast<typename I::RP>(x), static_cast<typename I::RQ>(y));
    rn.done("shift");
}
}  // namespace c09
