// C05: non-template bookkeeping and reporting ('S' stats lines, 'V' violation lines).
// Kept free of per-instance template parameters so that the ~1600 instantiated judges stay small
// (compile time of the sweep TUs is dominated by per-instance code).
#pragma once
#include "c05_oracle.hh"
#include "c05_ubsan.hh"

namespace vf5 {

enum Kind { K_UNDEF, K_WRONG, K_OVF, K_UNCAST, K_TRUNC, K_UBCHK, K_UBCONV, K_FPSCALE, NK };
static const char *const KIND_NAME[NK] = {"cleared-undefined", "cleared-wrong-value", "ovf-unjustified",
                                          "uncastable-not-lossy", "cleared-truncates",
                                          "ub-in-cleared-checker", "ub-in-conversion", "fp-scale-wrong"};

// a value of any of the 11 reps, cheap to build, rendered only when printed
struct Val {
    bool fp;
    i128 i;
    long double f;   // exact widening of the floating value (spelling only; NaN payloads via bits)
    Bits bits;
    int nbytes;      // 4 / 8 / 10 for floating values
};
template <typename X>
inline typename std::enable_if<std::is_integral<X>::value, Val>::type val(X x) {
    return Val{false, (i128)x, 0.0L, Bits{0, 0}, 0};
}
template <typename X>
inline typename std::enable_if<std::is_floating_point<X>::value, Val>::type val(X x) {
    return Val{true, 0, (long double)x, to_bits(x), FpInfo<X>::nbytes};
}
inline std::string val_str(const Val &v) { return v.fp ? fp_str(v.f) : vf::int_str(v.i); }
inline std::string val_bits(const Val &v) {
    if (!v.fp) return "";
    char s[40];
    if (v.nbytes == 4) std::snprintf(s, sizeof s, "%08llx", (unsigned long long)v.bits.lo);
    else if (v.nbytes == 8) std::snprintf(s, sizeof s, "%016llx", (unsigned long long)v.bits.lo);
    else std::snprintf(s, sizeof s, "%04x%016llx", (unsigned)v.bits.hi, (unsigned long long)v.bits.lo);
    return s;
}

struct Det {
    bool has_stages = false;
    StagesInt st;
    bool has_y = false;
    Val y;
    const char *why = nullptr, *form = nullptr;
    bool has_got = false, has_expect = false;
    Val got, expect;
};

struct Stats {
    unsigned long long evals = 0, n_trunc = 0, n_ovf = 0, n_lossy = 0, n_cleared = 0, n_exec = 0,
                       n_band = 0, n_viol = 0, n_must = 0, ub_chk_lossy = 0, ub_chk_lossy_na = 0,
                       ub_chk_cleared = 0, ub_conv = 0, n_nonfinite = 0, band_ulp = 0,
                       ub_chk_cleared_wrap = 0,   // unsigned wrap-around inside a checker on a cleared input
                       n_trunc_unjust = 0,        // truncation reported although every stage is exact
                       band_fpscale = 0,          // floating stage 2 between 4 and 64 ulp from exact
                       band_stage3 = 0,           // fp->fp: max(T) < |y| < max(T) + ulp/2 (rounds to max)
                       nk[NK] = {0, 0, 0, 0, 0, 0, 0, 0};
    double max_ulp = 0, max_fpscale = 0;
};

struct Ctx {
    int id, show;
    const char *sname, *tname, *cname;
    const char *shape = "";
    bool wrap_defined = false;   // arithmetic of the common type is unsigned: "arith" events are defined wraps
    unsigned long long N, D;
    Stats st;
    int shown[NK];
    bool have_cleared = false, have_lossy = false;
    Val first_cleared, first_lossy;
    Ctx(int i, int s, const char *sn, const char *tn, const char *cn, unsigned long long n,
        unsigned long long d)
        : id(i), show(s), sname(sn), tname(tn), cname(cn), N(n), D(d) {
        for (int k = 0; k < NK; ++k) shown[k] = 0;
    }
};

// is the arithmetic of the common type C unsigned (then UBSan "arith" events are defined wrap-arounds)?
template <typename C, bool INT = std::is_integral<C>::value> struct WrapDefined { static constexpr bool value = false; };
template <typename C> struct WrapDefined<C, true> { static constexpr bool value = std::is_unsigned<decltype(C() * C())>::value; };
template <typename C> constexpr bool wrap_defined() { return WrapDefined<C>::value; }

inline std::string kv(const char *k, const std::string &v) {
    return std::string(",\"") + k + "\":\"" + v + "\"";
}

__attribute__((noinline)) inline void emit(Ctx &c, int kind, const Val &x, bool lt, bool lo, bool ll,
                                           const Det &d) {
    ++c.st.n_viol;
    ++c.st.nk[kind];
    if (c.shown[kind]++ >= c.show) return;
    std::string det;
    if (d.has_stages) {
        char buf[200];
        std::snprintf(buf, sizeof buf, ",\"stages\":{\"st1_in\":%d,\"prod_in_p\":%d,\"trunc\":%d,"
                      "\"st2_out\":%d,\"band\":%d,\"st3_in\":%d}", d.st.st1_in, d.st.prod_in_p, d.st.trunc,
                      d.st.st2_out, d.st.band, d.st.st3_in);
        det += buf;
        det += kv("exact", d.st.st1_in ? std::string(d.st.neg ? "-" : "") + vf::u128_str(d.st.q) : "");
    }
    if (d.has_y)
        det += kv("y", val_str(d.y)) + kv("ybits", val_bits(d.y)) + kv("yint", int_of_fp_str(d.y.f));
    if (d.why) det += kv("why", d.why);
    if (d.form) det += kv("form", d.form);
    if (d.has_expect) det += kv("expect", val_str(d.expect));
    if (d.has_got) det += kv("got", val_str(d.got)) + kv("gotbits", val_bits(d.got));
    std::printf("V {\"inst\":%d,\"S\":\"%s\",\"T\":\"%s\",\"C\":\"%s\",\"u\":\"%s\",\"N\":\"%llu\",\"D\":\"%llu\","
                "\"x\":\"%s\",\"xbits\":\"%s\",\"kind\":\"%s\",\"lib\":{\"trunc\":%d,\"ovf\":%d,\"lossy\":%d}%s}\n",
                c.id, c.sname, c.tname, c.cname, c.shape, c.N, c.D, val_str(x).c_str(), val_bits(x).c_str(),
                KIND_NAME[kind], lt, lo, ll, det.c_str());
}

__attribute__((noinline)) inline void finish(const Ctx &c) {
    const Stats &s = c.st;
    std::printf("S {\"inst\":%d,\"S\":\"%s\",\"T\":\"%s\",\"C\":\"%s\",\"N\":\"%llu\",\"D\":\"%llu\",\"evals\":%llu,"
                "\"trunc\":%llu,\"ovf\":%llu,\"lossy\":%llu,\"cleared\":%llu,\"exec\":%llu,\"band\":%llu,"
                "\"viol\":%llu,\"must\":%llu,\"ub_chk_lossy\":%llu,\"ub_chk_lossy_na\":%llu,"
                "\"ub_chk_cleared\":%llu,\"ub_conv\":%llu,\"nonfinite\":%llu,\"band_ulp\":%llu,\"max_ulp\":%.4f,"
                "\"ub_chk_cleared_wrap\":%llu,\"trunc_unjust\":%llu,\"band_fpscale\":%llu,\"band_stage3\":%llu,"
                "\"max_fpscale\":%.4f,"
                "\"first_cleared\":\"%s\",\"first_lossy\":\"%s\",\"nk\":[%llu,%llu,%llu,%llu,%llu,%llu,%llu,%llu]}\n",
                c.id, c.sname, c.tname, c.cname, c.N, c.D, s.evals, s.n_trunc, s.n_ovf, s.n_lossy, s.n_cleared,
                s.n_exec, s.n_band, s.n_viol, s.n_must, s.ub_chk_lossy, s.ub_chk_lossy_na, s.ub_chk_cleared,
                s.ub_conv, s.n_nonfinite, s.band_ulp, s.max_ulp,
                s.ub_chk_cleared_wrap, s.n_trunc_unjust, s.band_fpscale, s.band_stage3, s.max_fpscale,
                c.have_cleared ? val_str(c.first_cleared).c_str() : "",
                c.have_lossy ? val_str(c.first_lossy).c_str() : "",
                s.nk[0], s.nk[1], s.nk[2], s.nk[3], s.nk[4], s.nk[5], s.nk[6], s.nk[7]);
    std::fflush(stdout);
}

// bookkeeping common to all four judges once the verdicts are known; returns true if the input was
// reported lossy (nothing more to check under implication (i))
inline bool account(Ctx &c, const Val &x, bool lt, bool lo, bool ll, const UbSnap &ubc, const Det &d) {
    if (ll) {
        c.st.ub_chk_lossy += ubc.arith;
        c.st.ub_chk_lossy_na += ubc.fcast + ubc.other;
        return true;
    }
    ++c.st.n_cleared;
    // Undefined behaviour inside a checker on an input it clears: signed overflow, float-cast overflow and
    // the non-arithmetic events.  Unsigned wrap-around is defined and the statement constrains the
    // conversion steps only (those are observed when the conversion itself is executed): counted.
    const unsigned long ub = (c.wrap_defined ? 0 : ubc.arith) + ubc.fcast + ubc.other;
    if (c.wrap_defined) c.st.ub_chk_cleared_wrap += ubc.arith;
    if (ub) {
        c.st.ub_chk_cleared += ub;
        emit(c, K_UBCHK, x, lt, lo, ll, d);
    }
    return false;
}

}  // namespace vf5
