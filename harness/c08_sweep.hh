// C08 value-sweep harness.  The oracle side uses no Au code: operands are scaled to the model's
// common unit with factors K1/K2 supplied by the Python model and all arithmetic is done in
// __int128 (integral reps) or __float128 (floating reps).  The library side evaluates the real
// mixed-unit operators.  Every instance struct I (generated) provides:
//   U1,U2 (units)  R1,R2 (reps)  C (model's common rep)  P (model's rep of `C op C`)
//   K1,K2 (unit_i / common unit, integers)  ADD, MOD, SS (which operator groups compile)
#pragma once
#include <algorithm>
#include <cmath>
#include <csignal>
#include <limits>
#include <vector>
#include <unistd.h>
#include "sweep.hh"
#if defined(__cpp_impl_three_way_comparison) && __cpp_impl_three_way_comparison >= 201907L
#include <compare>
#define C08_HAS_SS 1
#else
#define C08_HAS_SS 0
#endif

namespace c08 {
using vf::i128;
typedef __float128 f128;
template <bool B>
using BoolC = std::integral_constant<bool, B>;

template <typename T>
constexpr i128 lo() {
    return std::is_signed<T>::value ? -(i128)vf::abs_min<T>() : (i128)0;
}
template <typename T>
constexpr i128 hi() {
    return (i128)vf::abs_max<T>();
}
inline std::string s128(i128 v) {
    return v < 0 ? "-" + vf::u128_str((vf::u128)(-v)) : vf::u128_str((vf::u128)v);
}
template <typename Q>
constexpr typename Q::Rep raw(Q q) {
    return q.in(typename Q::Unit{});
}

struct Stats {
    unsigned long long pairs = 0, in_pre = 0, skip_pre = 0, skip_res = 0, skip_mod = 0, n_lt = 0,
                       n_eq = 0, n_gt = 0, ops = 0, viol = 0, ubsan = 0, band = 0, tight = 0, nonfinite = 0,
                       nonfinite_not_ieee = 0;
};

enum Slot { CMP_EXACT, CMP_CONS, ANTISYM, SS_SIX, SS_EXACT, SUM, DIFF, MOD_, UBSAN, NSLOT };

struct Reporter {
    int id;
    Stats st;
    int shown[NSLOT] = {};
    void v(Slot slot, const char *kind, const char *op, int order, const std::string &x1,
           const std::string &x2, const std::string &got, const std::string &want) {
        ++st.viol;
        if (shown[slot]++ < 3)
            std::printf("V {\"inst\":%d,\"kind\":\"%s\",\"op\":\"%s\",\"order\":%d,\"x1\":\"%s\",\"x2\":\"%s\","
                        "\"got\":\"%s\",\"want\":\"%s\"}\n",
                        id, kind, op, order, x1.c_str(), x2.c_str(), got.c_str(), want.c_str());
    }
};

// A trap inside the library on an in-precondition pair (e.g. an integer division by an operand that
// wrapped to zero) is reported as a violation of that pair, not as a harness failure.
struct Current {
    int id;
    i128 v1, v2;
};
static Current g_cur = {-1, 0, 0};
extern "C" inline void c08_on_trap(int sig) {
    std::printf("V {\"inst\":%d,\"kind\":\"trap\",\"op\":\"signal %d\",\"order\":0,\"x1\":\"%s\",\"x2\":\"%s\","
                "\"got\":\"%s\",\"want\":\"no trap\"}\n",
                g_cur.id, sig, s128(g_cur.v1).c_str(), s128(g_cur.v2).c_str(),
                sig == SIGFPE ? "SIGFPE (integer division by zero / overflow)" : "fatal signal");
    std::fflush(stdout);
    _exit(3);
}
inline void install_trap_handler() {
    std::signal(SIGFPE, c08_on_trap);
    std::signal(SIGILL, c08_on_trap);
    std::signal(SIGSEGV, c08_on_trap);
}

static const char *const CMP_NAMES[6] = {"<", "==", ">", "<=", ">=", "!="};

// ------------------------------------------------------------------------------ integral reps
template <typename I>
struct IntRun : Reporter {
    typedef typename I::R1 R1;
    typedef typename I::R2 R2;
    typedef typename I::C C;
    typedef typename I::P P;
    typedef au::Quantity<typename I::U1, R1> Q1;
    typedef au::Quantity<typename I::U2, R2> Q2;
    bool r[2][6];
    i128 cur1 = 0, cur2 = 0;   // current operand values (strings are made only when something is reported)

    void cmp(Q1 q1, Q2 q2, i128 a, i128 b) {
        const bool rr[2][6] = {{q1 < q2, q1 == q2, q1 > q2, q1 <= q2, q1 >= q2, q1 != q2},
                               {q2 < q1, q2 == q1, q2 > q1, q2 <= q1, q2 >= q1, q2 != q1}};
        const bool e[2][6] = {{a < b, a == b, a > b, a <= b, a >= b, a != b},
                              {b < a, b == a, b > a, b <= a, b >= a, b != a}};
        st.ops += 12;
        for (int o = 0; o < 2; ++o) {
            for (int k = 0; k < 6; ++k) {
                r[o][k] = rr[o][k];
                if (rr[o][k] != e[o][k])
                    v(CMP_EXACT, "cmp-exact", CMP_NAMES[k], o, s128(cur1), s128(cur2), rr[o][k] ? "true" : "false",
                      e[o][k] ? "true" : "false");
            }
            if ((int)rr[o][0] + (int)rr[o][1] + (int)rr[o][2] != 1)
                v(CMP_CONS, "cmp-trichotomy", "<,==,>", o, s128(cur1), s128(cur2),
                  std::to_string(rr[o][0]) + std::to_string(rr[o][1]) + std::to_string(rr[o][2]),
                  "exactly one");
            if (rr[o][3] != (rr[o][0] || rr[o][1]))
                v(CMP_CONS, "cmp-derived", "<=", o, s128(cur1), s128(cur2), rr[o][3] ? "true" : "false", "(< or ==)");
            if (rr[o][4] != (rr[o][2] || rr[o][1]))
                v(CMP_CONS, "cmp-derived", ">=", o, s128(cur1), s128(cur2), rr[o][4] ? "true" : "false", "(> or ==)");
            if (rr[o][5] != !rr[o][1])
                v(CMP_CONS, "cmp-derived", "!=", o, s128(cur1), s128(cur2), rr[o][5] ? "true" : "false", "not ==");
        }
        static const int mirror[6] = {2, 1, 0, 4, 3, 5};
        for (int k = 0; k < 6; ++k)
            if (rr[0][k] != rr[1][mirror[k]])
                v(ANTISYM, "antisymmetry", CMP_NAMES[k], 0, s128(cur1), s128(cur2), rr[0][k] ? "true" : "false",
                  std::string("swapped ") + CMP_NAMES[mirror[k]] + " is " +
                      (rr[1][mirror[k]] ? "true" : "false"));
        st.n_lt += rr[0][0];
        st.n_eq += rr[0][1];
        st.n_gt += rr[0][2];
    }

    void spaceship(BoolC<false>, Q1, Q2, i128, i128) {}
#if C08_HAS_SS
    void spaceship(BoolC<true>, Q1 q1, Q2 q2, i128 a, i128 b) {
        const auto o1 = q1 <=> q2;
        const auto o2 = q2 <=> q1;
        const bool s[2][3] = {{o1 < 0, o1 == 0, o1 > 0}, {o2 < 0, o2 == 0, o2 > 0}};
        const bool e[2][3] = {{a < b, a == b, a > b}, {b < a, b == a, b > a}};
        st.ops += 2;
        for (int o = 0; o < 2; ++o) {
            const std::string got = s[o][0] ? "less" : s[o][1] ? "equal" : s[o][2] ? "greater" : "unordered";
            bool six = true, ex = true;
            for (int k = 0; k < 3; ++k) {
                six = six && s[o][k] == r[o][k];
                ex = ex && s[o][k] == e[o][k];
            }
            if (!six)
                v(SS_SIX, "spaceship-vs-six", "<=>", o, s128(cur1), s128(cur2), got,
                  r[o][0] ? "less (operator<)" : r[o][1] ? "equal (operator==)" : "greater (operator>)");
            if (!ex)
                v(SS_EXACT, "spaceship-exact", "<=>", o, s128(cur1), s128(cur2), got,
                  e[o][0] ? "less" : e[o][1] ? "equal" : "greater");
        }
    }
#endif

    void addsub(BoolC<false>, Q1, Q2, i128, i128) {}
    void addsub(BoolC<true>, Q1 q1, Q2 q2, i128 a, i128 b) {
        // judged whenever the exact result fits the promoted common rep P or the rep the library actually returns
        // (a narrower returned rep therefore shows up as a wrong value, not as a skipped pair)
        typedef decltype(raw(q1 + q2)) AR;
        const i128 plo = lo<P>() < lo<AR>() ? lo<P>() : lo<AR>(), phi = hi<P>() > hi<AR>() ? hi<P>() : hi<AR>();
        const i128 s = a + b, d1 = a - b, d2 = b - a;
        if (s >= plo && s <= phi) {
            const i128 g1 = (i128)raw(q1 + q2), g2 = (i128)raw(q2 + q1);
            st.ops += 2;
            if (g1 != s) v(SUM, "sum", "+", 0, s128(cur1), s128(cur2), s128(g1), s128(s));
            if (g2 != s) v(SUM, "sum", "+", 1, s128(cur1), s128(cur2), s128(g2), s128(s));
        } else {
            ++st.skip_res;
        }
        if (d1 >= plo && d1 <= phi) {
            const i128 g = (i128)raw(q1 - q2);
            ++st.ops;
            if (g != d1) v(DIFF, "diff", "-", 0, s128(cur1), s128(cur2), s128(g), s128(d1));
        } else {
            ++st.skip_res;
        }
        if (d2 >= plo && d2 <= phi) {
            const i128 g = (i128)raw(q2 - q1);
            ++st.ops;
            if (g != d2) v(DIFF, "diff", "-", 1, s128(cur1), s128(cur2), s128(g), s128(d2));
        } else {
            ++st.skip_res;
        }
    }

    void mod(BoolC<false>, Q1, Q2, i128, i128) {}
    void mod(BoolC<true>, Q1 q1, Q2 q2, i128 a, i128 b) {
        const i128 plo = lo<P>();
        // C++ remainder: truncated division; x % 0 and min % -1 (in the promoted type) are UB
        if (b != 0 && !(a == plo && b == -1)) {
            const i128 g = (i128)raw(q1 % q2), w = a % b;
            ++st.ops;
            if (g != w) v(MOD_, "mod", "%", 0, s128(cur1), s128(cur2), s128(g), s128(w));
        } else {
            ++st.skip_mod;
        }
        if (a != 0 && !(b == plo && a == -1)) {
            const i128 g = (i128)raw(q2 % q1), w = b % a;
            ++st.ops;
            if (g != w) v(MOD_, "mod", "%", 1, s128(cur1), s128(cur2), s128(g), s128(w));
        } else {
            ++st.skip_mod;
        }
    }

    void pair(i128 v1, i128 v2) {
        ++st.pairs;
        const i128 a = v1 * (i128)I::K1, b = v2 * (i128)I::K2;
        if (a < lo<C>() || a > hi<C>() || b < lo<C>() || b > hi<C>()) {
            ++st.skip_pre;   // scaling to the common unit overflows the common rep: outside the statement
            return;
        }
        ++st.in_pre;
        g_cur.id = id;
        g_cur.v1 = v1;
        g_cur.v2 = v2;
        const Q1 q1 = au::make_quantity<typename I::U1>(static_cast<R1>(v1));
        const Q2 q2 = au::make_quantity<typename I::U2>(static_cast<R2>(v2));
        cur1 = v1;
        cur2 = v2;
        const unsigned long ub0 = vf_ubsan_reports;
        cmp(q1, q2, a, b);
        spaceship(BoolC<I::SS>{}, q1, q2, a, b);
        addsub(BoolC<I::ADD>{}, q1, q2, a, b);
        mod(BoolC<I::MOD>{}, q1, q2, a, b);
        if (vf_ubsan_reports != ub0) {
            ++st.ubsan;
            v(UBSAN, "ubsan", "any", 0, s128(cur1), s128(cur2), "undefined behaviour reported", "none");
        }
    }
};

template <typename T>
inline bool in8(i128 v) {
    return std::is_signed<T>::value ? (v >= -128 && v <= 127) : (v >= 0 && v <= 255);
}

template <typename I, bool ADD>
struct ResultInfo {
    static std::string get() { return "\"rep_ok\":true,\"sum_unit\":null"; }
};
template <typename I>
struct ResultInfo<I, true> {
    static std::string get() {
        typedef decltype(std::declval<au::Quantity<typename I::U1, typename I::R1>>() +
                         std::declval<au::Quantity<typename I::U2, typename I::R2>>()) S;
        typedef decltype(std::declval<au::Quantity<typename I::U1, typename I::R1>>() -
                         std::declval<au::Quantity<typename I::U2, typename I::R2>>()) D;
        const bool ok = std::is_same<typename S::Rep, typename I::P>::value &&
                        std::is_same<typename D::Rep, typename I::P>::value &&
                        std::is_same<typename S::Unit, typename D::Unit>::value;
        return std::string("\"rep_ok\":") + (ok ? "true" : "false") + ",\"sum_unit\":{" +
               vf::unit_json<typename S::Unit>() + "}";
    }
};
template <typename I, bool MOD>
struct ModInfo {
    static std::string get() { return "\"mod_rep_ok\":true,\"mod_unit\":null"; }
};
template <typename I>
struct ModInfo<I, true> {
    static std::string get() {
        typedef decltype(std::declval<au::Quantity<typename I::U1, typename I::R1>>() %
                         std::declval<au::Quantity<typename I::U2, typename I::R2>>()) S;
        const bool ok = std::is_same<typename S::Rep, typename I::P>::value;
        return std::string("\"mod_rep_ok\":") + (ok ? "true" : "false") + ",\"mod_unit\":{" +
               vf::unit_json<typename S::Unit>() + "}";
    }
};

inline void print_stats(int id, const Stats &st, const std::string &extra) {
    std::printf("S {\"inst\":%d,\"pairs\":%llu,\"in_pre\":%llu,\"skip_pre\":%llu,\"skip_res\":%llu,"
                "\"skip_mod\":%llu,\"lt\":%llu,\"eq\":%llu,\"gt\":%llu,\"ops\":%llu,\"viol\":%llu,"
                "\"ubsan\":%llu,\"band\":%llu,\"tight\":%llu,\"nonfinite\":%llu,\"nonfinite_not_ieee\":%llu,%s}\n",
                id, st.pairs, st.in_pre, st.skip_pre, st.skip_res, st.skip_mod, st.n_lt, st.n_eq,
                st.n_gt, st.ops, st.viol, st.ubsan, st.band, st.tight, st.nonfinite, st.nonfinite_not_ieee,
                extra.c_str());
    std::fflush(stdout);
}

// Pairs: (1) the full 8-bit square, (2) window alphabet A x window alphabet B (minus what (1)
// already covered), (3) the near-diagonal: for every alphabet value of one operand the values of the
// other operand whose exact scaled value is nearest (+-2), so that ==, <, > all occur far from 0.
// LA/LB: the enumerated lattice alphabets (crossed with each other, not with the windows).
// dense: 0 = off; 1 = every value of a 16-bit operand x (the other operand's extreme alphabet values, 0, 1 and the values
// nearest the same quantity, +-1); 2 = every value of a 16-bit operand x the other operand's whole window alphabet
template <typename I>
void run_int(int id, const vf::Interval *A, int na, const vf::Interval *B, int nb, const vf::Interval *LA, int nla,
             const vf::Interval *LB, int nlb, bool square8, int dense = 0) {
    typedef typename I::R1 R1;
    typedef typename I::R2 R2;
    IntRun<I> rn;
    rn.id = id;
    install_trap_handler();
    const i128 l1 = lo<R1>(), h1 = hi<R1>(), l2 = lo<R2>(), h2 = hi<R2>();
    if (square8) {
        const i128 s1 = std::is_signed<R1>::value ? -128 : 0, s2 = std::is_signed<R2>::value ? -128 : 0;
        for (i128 x = s1; x < s1 + 256; ++x)
            for (i128 y = s2; y < s2 + 256; ++y) rn.pair(x, y);
    }
    for (int i = 0; i < na; ++i)
        for (i128 x = A[i].lo; x <= A[i].hi; ++x)
            for (int j = 0; j < nb; ++j)
                for (i128 y = B[j].lo; y <= B[j].hi; ++y) {
                    if (square8 && in8<R1>(x) && in8<R2>(y)) continue;
                    rn.pair(x, y);
                }
    for (int i = 0; i < nla; ++i)
        for (i128 x = LA[i].lo; x <= LA[i].hi; ++x)
            for (int j = 0; j < nlb; ++j)
                for (i128 y = LB[j].lo; y <= LB[j].hi; ++y) rn.pair(x, y);
    // near-diagonal (skipping pairs already covered above is not worth the bookkeeping: they are
    // re-evaluated, which is harmless; the pair counter counts evaluations)
    for (int pass = 0; pass < 2; ++pass) {
        const vf::Interval *X = pass ? LA : A, *Y = pass ? LB : B;
        const int nx = pass ? nla : na, ny = pass ? nlb : nb;
        for (int i = 0; i < nx; ++i)
            for (i128 x = X[i].lo; x <= X[i].hi; ++x) {
                const i128 c = x * (i128)I::K1 / (i128)I::K2;
                for (i128 y = c - 2; y <= c + 2; ++y)
                    if (y >= l2 && y <= h2) rn.pair(x, y);
            }
        for (int j = 0; j < ny; ++j)
            for (i128 y = Y[j].lo; y <= Y[j].hi; ++y) {
                const i128 c = y * (i128)I::K2 / (i128)I::K1;
                for (i128 x = c - 2; x <= c + 2; ++x)
                    if (x >= l1 && x <= h1) rn.pair(x, y);
            }
    }
    if (dense && sizeof(R1) == 2)
        for (i128 x = l1; x <= h1; ++x) {
            if (dense == 2) {
                for (int j = 0; j < nb; ++j)
                    for (i128 y = B[j].lo; y <= B[j].hi; ++y) rn.pair(x, y);
            } else if (nb) {
                rn.pair(x, B[0].lo);
                rn.pair(x, B[nb - 1].hi);
                rn.pair(x, 0);
                rn.pair(x, 1);
            }
            const i128 c = x * (i128)I::K1 / (i128)I::K2;
            for (i128 y = c - 1; y <= c + 1; ++y)
                if (y >= l2 && y <= h2) rn.pair(x, y);
        }
    if (dense && sizeof(R2) == 2)
        for (i128 y = l2; y <= h2; ++y) {
            if (dense == 2) {
                for (int i = 0; i < na; ++i)
                    for (i128 x = A[i].lo; x <= A[i].hi; ++x) rn.pair(x, y);
            } else if (na) {
                rn.pair(A[0].lo, y);
                rn.pair(A[na - 1].hi, y);
                rn.pair(0, y);
                rn.pair(1, y);
            }
            const i128 c = y * (i128)I::K2 / (i128)I::K1;
            for (i128 x = c - 1; x <= c + 1; ++x)
                if (x >= l1 && x <= h1) rn.pair(x, y);
        }
    print_stats(id, rn.st, ResultInfo<I, I::ADD>::get() + "," + ModInfo<I, I::MOD>::get());
}

// ------------------------------------------------------------------------------ floating reps
inline f128 fabsq_(f128 x) { return x < 0 ? -x : x; }
template <typename T>
inline f128 ulp_of(f128 m) {   // ulp of the rep T at magnitude m (m finite, in T's range)
    T t = static_cast<T>(m);
    if (t < 0) t = -t;
    const T n = std::nextafter(t, std::numeric_limits<T>::infinity());
    return (f128)n - (f128)t;
}
inline std::string fstr(f128 x) {
    char buf[64];
    std::snprintf(buf, sizeof buf, "%.21Lg", (long double)x);
    return buf;
}
template <typename T>
inline bool exact_in(f128 v) {   // v (finite) is a value of T
    return (f128) static_cast<T>(v) == v;
}
template <typename T>
inline bool finite_(T x) {
    return x == x && x != std::numeric_limits<T>::infinity() && x != -std::numeric_limits<T>::infinity();
}

// K1/K2 are exact (integers) or correct to > 113 bits (irrational ratio).  Two regimes:
//  * tight: both factors are integers representable in C and both scaled operands are values of C.  Then the
//    library's conversions are exact products, so every comparison is judged exactly and a sum/difference may be
//    off by at most 1 ulp of C at the result (a correctly rounded operation is off by at most 1/2).
//  * otherwise: each scaled operand may carry ~1 ulp of its own, so results are judged to 4 ulp of C at
//    max(|a|,|b|) and comparisons only outside that band.
template <typename I>
struct FltRun : Reporter {
    typedef typename I::R1 R1;
    typedef typename I::R2 R2;
    typedef typename I::C C;
    typedef au::Quantity<typename I::U1, R1> Q1;
    typedef au::Quantity<typename I::U2, R2> Q2;
    static constexpr int ULPS = 4;
    const f128 K1 = I::k1f(), K2 = I::k2f();
    const bool kexact = I::KINT && exact_in<C>(I::k1f()) && exact_in<C>(I::k2f());
    bool r[2][6];
    std::string sx1, sx2;

    void cmp(Q1 q1, Q2 q2, f128 a, f128 b, bool strict) {
        const bool rr[2][6] = {{q1 < q2, q1 == q2, q1 > q2, q1 <= q2, q1 >= q2, q1 != q2},
                               {q2 < q1, q2 == q1, q2 > q1, q2 <= q1, q2 >= q1, q2 != q1}};
        const bool e[2][6] = {{a < b, a == b, a > b, a <= b, a >= b, a != b},
                              {b < a, b == a, b > a, b <= a, b >= a, b != a}};
        st.ops += 12;
        for (int o = 0; o < 2; ++o) {
            for (int k = 0; k < 6; ++k) {
                r[o][k] = rr[o][k];
                if (strict && rr[o][k] != e[o][k])
                    v(CMP_EXACT, "cmp-exact", CMP_NAMES[k], o, sx1, sx2, rr[o][k] ? "true" : "false",
                      e[o][k] ? "true" : "false");
            }
            if ((int)rr[o][0] + (int)rr[o][1] + (int)rr[o][2] != 1)
                v(CMP_CONS, "cmp-trichotomy", "<,==,>", o, sx1, sx2,
                  std::to_string(rr[o][0]) + std::to_string(rr[o][1]) + std::to_string(rr[o][2]),
                  "exactly one");
            if (rr[o][3] != (rr[o][0] || rr[o][1]) || rr[o][4] != (rr[o][2] || rr[o][1]) ||
                rr[o][5] != !rr[o][1])
                v(CMP_CONS, "cmp-derived", "<=,>=,!=", o, sx1, sx2, "inconsistent", "derived from <,==,>");
        }
        static const int mirror[6] = {2, 1, 0, 4, 3, 5};
        for (int k = 0; k < 6; ++k)
            if (rr[0][k] != rr[1][mirror[k]])
                v(ANTISYM, "antisymmetry", CMP_NAMES[k], 0, sx1, sx2, rr[0][k] ? "true" : "false",
                  "mirror of the swapped comparison");
        if (!strict) ++st.band;
        st.n_lt += rr[0][0];
        st.n_eq += rr[0][1];
        st.n_gt += rr[0][2];
    }
    void spaceship(BoolC<false>, Q1, Q2) {}
#if C08_HAS_SS
    void spaceship(BoolC<true>, Q1 q1, Q2 q2) {
        const auto o1 = q1 <=> q2;
        const auto o2 = q2 <=> q1;
        const bool s[2][3] = {{o1 < 0, o1 == 0, o1 > 0}, {o2 < 0, o2 == 0, o2 > 0}};
        st.ops += 2;
        for (int o = 0; o < 2; ++o)
            for (int k = 0; k < 3; ++k)
                if (s[o][k] != r[o][k]) {
                    v(SS_SIX, "spaceship-vs-six", "<=>", o, sx1, sx2,
                      s[o][0] ? "less" : s[o][1] ? "equal" : s[o][2] ? "greater" : "unordered",
                      r[o][0] ? "less (operator<)" : r[o][1] ? "equal (operator==)" : r[o][2] ? "greater (operator>)"
                                                                                             : "unordered (all of <,==,> false)");
                    break;
                }
    }
#endif
    // An operand that is NaN or infinite has no exact value: the statement demands nothing of the six operators there
    // (whether they follow IEEE is recorded, not judged); it still demands that <=> agrees with them.
    void nonfinite(R1 x1, R2 x2) {
        ++st.pairs;
        ++st.nonfinite;
        const f128 a = (f128)x1 * K1, b = (f128)x2 * K2;
        const Q1 q1 = au::make_quantity<typename I::U1>(x1);
        const Q2 q2 = au::make_quantity<typename I::U2>(x2);
        sx1 = std::string(std::signbit(x1) ? "-" : "+") + fstr(x1 < 0 ? -x1 : x1);
        sx2 = std::string(std::signbit(x2) ? "-" : "+") + fstr(x2 < 0 ? -x2 : x2);
        const bool rr[2][6] = {{q1 < q2, q1 == q2, q1 > q2, q1 <= q2, q1 >= q2, q1 != q2},
                               {q2 < q1, q2 == q1, q2 > q1, q2 <= q1, q2 >= q1, q2 != q1}};
        const bool e[2][6] = {{a < b, a == b, a > b, a <= b, a >= b, a != b},
                              {b < a, b == a, b > a, b <= a, b >= a, b != a}};
        st.ops += 12;
        bool ieee = true;
        for (int o = 0; o < 2; ++o)
            for (int k = 0; k < 6; ++k) {
                r[o][k] = rr[o][k];
                ieee = ieee && rr[o][k] == e[o][k];
            }
        if (!ieee) ++st.nonfinite_not_ieee;
        // Mutual consistency and mirror symmetry need no exact value and are demanded everywhere (the raw IEEE
        // operators satisfy them for NaN and infinities too: with a NaN operand all of <,==,>,<=,>= are false).
        for (int o = 0; o < 2; ++o)
            if (rr[o][3] != (rr[o][0] || rr[o][1]) || rr[o][4] != (rr[o][2] || rr[o][1]) || rr[o][5] != !rr[o][1])
                v(CMP_CONS, "cmp-derived", "<=,>=,!=", o, sx1, sx2, "inconsistent", "derived from <,==,>");
        static const int mirror[6] = {2, 1, 0, 4, 3, 5};
        for (int k = 0; k < 6; ++k)
            if (rr[0][k] != rr[1][mirror[k]])
                v(ANTISYM, "antisymmetry", CMP_NAMES[k], 0, sx1, sx2, rr[0][k] ? "true" : "false",
                  "mirror of the swapped comparison");
        spaceship(BoolC<I::SS>{}, q1, q2);
    }
    void pair(R1 x1, R2 x2) {
        if (!finite_(x1) || !finite_(x2)) {
            nonfinite(x1, x2);
            return;
        }
        ++st.pairs;
        const f128 a = (f128)x1 * K1, b = (f128)x2 * K2;
        const f128 big = (f128)std::numeric_limits<C>::max() / 4;
        if (fabsq_(a) > big || fabsq_(b) > big) {
            ++st.skip_pre;
            return;
        }
        ++st.in_pre;
        const Q1 q1 = au::make_quantity<typename I::U1>(x1);
        const Q2 q2 = au::make_quantity<typename I::U2>(x2);
        sx1 = fstr(x1);
        sx2 = fstr(x2);
        const bool tight = kexact && exact_in<C>(a) && exact_in<C>(b);
        const f128 m = fabsq_(a) > fabsq_(b) ? fabsq_(a) : fabsq_(b);
        const f128 u = ulp_of<C>(m);
        st.tight += tight;
        cmp(q1, q2, a, b, tight || fabsq_(a - b) > ULPS * u);
        spaceship(BoolC<I::SS>{}, q1, q2);
        const f128 s = a + b, d = a - b;
        const f128 g1 = (f128)raw(q1 + q2), g2 = (f128)raw(q2 + q1), g3 = (f128)raw(q1 - q2),
                   g4 = (f128)raw(q2 - q1);
        st.ops += 4;
        const f128 tols = tight ? ulp_of<C>(fabsq_(s)) : ULPS * u;   // ulp at max(|a|,|b|) >= ulp at |a+-b|/2
        const f128 told = tight ? ulp_of<C>(fabsq_(d)) : ULPS * u;
        const char *ks = tight ? "sum-exact-operands" : "sum", *kd = tight ? "diff-exact-operands" : "diff";
        if (!(fabsq_(g1 - s) <= tols)) v(SUM, ks, "+", 0, sx1, sx2, fstr(g1), fstr(s));
        if (!(fabsq_(g2 - s) <= tols)) v(SUM, ks, "+", 1, sx1, sx2, fstr(g2), fstr(s));
        if (!(fabsq_(g3 - d) <= told)) v(DIFF, kd, "-", 0, sx1, sx2, fstr(g3), fstr(d));
        if (!(fabsq_(g4 + d) <= told)) v(DIFF, kd, "-", 1, sx1, sx2, fstr(g4), fstr(-d));
    }
};

inline int ceil_log2(f128 k) {
    int n = 0;
    for (f128 p = 1; p < k; p *= 2) ++n;
    return n;
}

// Enumerated alphabet of one floating operand: 0, eight mantissas (1, 1.5, 1.25, 1.1, 4/3, 1.9, 1+ulp, 2-ulp) x sign x
// binary exponents emin..emax step estep, plus the extreme exponents of the rep: smallest normal, middle and bottom of the
// subnormal range, and the exponents just below the precondition's limit max(C)/4 after scaling by K (lgk = ceil(log2 K)).
template <typename T, typename C>
std::vector<T> float_alphabet(int emin, int emax, int estep, int lgk) {
    typedef std::numeric_limits<T> L;
    std::vector<T> v;
    v.push_back(T(0));
    const T one_up = std::nextafter(T(1), T(2)), two_dn = std::nextafter(T(2), T(1));
    const T mant[] = {T(1), T(1.5), T(1.25), T(1.1), T(4) / T(3), T(1.9), one_up, two_dn};
    std::vector<int> ex;
    for (int e = emin; e <= emax; e += estep) ex.push_back(e);
    const int ehi = std::min(L::max_exponent - 2, std::numeric_limits<C>::max_exponent - 3 - lgk);
    const int extra[] = {L::min_exponent - 1, L::min_exponent + 3, L::min_exponent - 1 - L::digits / 2,
                         L::min_exponent - L::digits, ehi, ehi - 1, ehi - 7};
    for (int e : extra) ex.push_back(e);
    for (int e : ex)
        for (T m : mant) {
            const T x = std::ldexp(m, e);
            if (!finite_(x)) continue;
            v.push_back(x);
            v.push_back(-x);
        }
    return v;
}

template <typename I>
void run_flt(int id, int emin, int emax, int estep) {
    typedef typename I::R1 R1;
    typedef typename I::R2 R2;
    typedef typename I::C C;
    FltRun<I> rn;
    rn.id = id;
    for (int x = -128; x < 128; ++x)
        for (int y = -128; y < 128; ++y) rn.pair(static_cast<R1>(x), static_cast<R2>(y));
    {
        const R1 s1[] = {R1(0), -R1(0), std::numeric_limits<R1>::quiet_NaN(), -std::numeric_limits<R1>::quiet_NaN(), R1(1), R1(-1),
                         std::numeric_limits<R1>::infinity(), -std::numeric_limits<R1>::infinity(), std::numeric_limits<R1>::denorm_min()};
        const R2 s2[] = {R2(0), -R2(0), std::numeric_limits<R2>::quiet_NaN(), -std::numeric_limits<R2>::quiet_NaN(), R2(1), R2(-1),
                         std::numeric_limits<R2>::infinity(), -std::numeric_limits<R2>::infinity(), std::numeric_limits<R2>::denorm_min()};
        for (R1 x : s1)
            for (R2 y : s2) rn.pair(x, y);
    }
    const std::vector<R1> A = float_alphabet<R1, C>(emin, emax, estep, ceil_log2(I::k1f()));
    const std::vector<R2> B = float_alphabet<R2, C>(emin, emax, estep, ceil_log2(I::k2f()));
    for (R1 x : A)
        for (R2 y : B) rn.pair(x, y);
    // near-diagonal: the other operand's closest representable values to the same exact quantity
    for (R1 x : A) {
        R2 y = static_cast<R2>((f128)x * I::k1f() / I::k2f());
        if (!finite_(y)) continue;
        R2 yl = y, yh = y;
        for (int k = 0; k < 3; ++k) {
            rn.pair(x, yl);
            if (k) rn.pair(x, yh);
            yl = std::nextafter(yl, -std::numeric_limits<R2>::infinity());
            yh = std::nextafter(yh, std::numeric_limits<R2>::infinity());
        }
    }
    for (R2 y : B) {
        R1 x = static_cast<R1>((f128)y * I::k2f() / I::k1f());
        if (!finite_(x)) continue;
        R1 xl = x, xh = x;
        for (int k = 0; k < 3; ++k) {
            rn.pair(xl, y);
            if (k) rn.pair(xh, y);
            xl = std::nextafter(xl, -std::numeric_limits<R1>::infinity());
            xh = std::nextafter(xh, std::numeric_limits<R1>::infinity());
        }
    }
    print_stats(id, rn.st, "\"rep_ok\":true,\"sum_unit\":{" +
                vf::unit_json<typename decltype(std::declval<au::Quantity<typename I::U1, R1>>() +
                                                std::declval<au::Quantity<typename I::U2, R2>>())::Unit>() +
                "},\"mod_rep_ok\":true,\"mod_unit\":null");
}

// ------------------------------------------------------------------------------ transitivity cube
// All (x, y, z) in the 8-bit cube for three units/reps; the library's own answers are combined.
template <typename UA, typename RA, typename UB, typename RB, typename UC, typename RC>
void run_cube(int id, const char *name, int part, int nparts) {
    unsigned long long n = 0, prem = 0, viol = 0;
    const int s = std::is_signed<RA>::value ? -128 : 0;
    for (int x = s + part; x < s + 256; x += nparts) {
        const auto a = au::make_quantity<UA>(static_cast<RA>(x));
        for (int y = s; y < s + 256; ++y) {
            const auto b = au::make_quantity<UB>(static_cast<RB>(y));
            const bool lt_ab = a < b, le_ab = a <= b, eq_ab = a == b;
            for (int z = s; z < s + 256; ++z) {
                const auto c = au::make_quantity<UC>(static_cast<RC>(z));
                const bool lt_bc = b < c, le_bc = b <= c, eq_bc = b == c;
                const bool lt_ac = a < c, le_ac = a <= c, eq_ac = a == c;
                ++n;
                const char *bad = nullptr;
                if (lt_ab && lt_bc) { ++prem; if (!lt_ac) bad = "a<b & b<c but not a<c"; }
                if (le_ab && le_bc) { ++prem; if (!le_ac) bad = "a<=b & b<=c but not a<=c"; }
                if (eq_ab && eq_bc) { ++prem; if (!eq_ac) bad = "a==b & b==c but not a==c"; }
                if (lt_ab && le_bc && !lt_ac) bad = "a<b & b<=c but not a<c";
                if (le_ab && lt_bc && !lt_ac) bad = "a<=b & b<c but not a<c";
                // exact ordering of the same triple (values scaled by the model in the caller's units)
                if (bad) {
                    if (viol++ < 3)
                        std::printf("V {\"inst\":%d,\"kind\":\"transitivity\",\"op\":\"%s\",\"order\":0,"
                                    "\"x1\":\"%d\",\"x2\":\"%d\",\"got\":\"z=%d: %s\",\"want\":\"transitive\"}\n",
                                    id, name, x, y, z, bad);
                }
            }
        }
    }
    std::printf("T {\"inst\":%d,\"chain\":\"%s\",\"triples\":%llu,\"premises\":%llu,\"viol\":%llu}\n", id,
                name, n, prem, viol);
    std::fflush(stdout);
}
}  // namespace c08
