// C12 watchdog: non-termination or a trap inside the code under test is a violation for the input being
// evaluated, not a harness failure.  Every call of the code under test is bracketed by a WdScope that
// publishes (what, operands) in volatiles and bumps a call counter.  A CPU-time interval timer
// (ITIMER_VIRTUAL: immune to machine load) ticks every WD_TICK_S seconds of user time; when two
// consecutive ticks see the same call still open, that one call has consumed >= WD_TICK_S CPU seconds
// (the slowest legitimate call, Pollard rho on a 64-bit semiprime, needs milliseconds): the handler
// prints a V line of kind "<what>-hang" and leaves with exit code 86.  SIGFPE/SIGSEGV/SIGBUS/SIGILL
// inside an open call are reported the same way as kind "<what>-trap" (stack overflow from runaway
// recursion is caught on an alternate signal stack).
#pragma once
#include <csignal>
#include <sys/time.h>
#include <unistd.h>

#include "c12_oracle.hh"

#ifndef C12_WD_TICK_S
#define C12_WD_TICK_S 1
#endif

namespace c12 {

static const char *volatile wd_what = nullptr;  // non-null while a call of the code under test is open
static const char *volatile wd_op = nullptr;    // modular helpers: the operation, operands in wd_a/b/n
static volatile u64 wd_n = 0, wd_a = 0, wd_b = 0;
static volatile unsigned long long wd_calls = 0, wd_seen = ~0ULL;

inline void wd_report(const char *suffix, int sig) {
    std::fflush(stdout);
    if (wd_op)  // (a trap keeps the kind mod-value with got = trap-signal-N; non-termination is mod-hang)
        std::printf("V {\"kind\":\"mod-%s\",\"op\":\"%s\",\"a\":\"%s\",\"b\":\"%s\",\"n\":\"%s\","
                    "\"got\":\"%s-signal-%d\",\"want\":\"the exact residue\",\"cpu_s\":%d}\n",
                    suffix[0] == 't' ? "value" : suffix, wd_op, u64s(wd_a).c_str(), u64s(wd_b).c_str(), u64s(wd_n).c_str(), suffix,
                    sig, C12_WD_TICK_S);
    else
        std::printf("V {\"kind\":\"%s-%s\",\"n\":\"%s\",\"signal\":%d,\"cpu_s\":%d}\n", wd_what, suffix,
                    u64s(wd_n).c_str(), sig, C12_WD_TICK_S);
    std::fflush(stdout);
    std::_Exit(86);
}

extern "C" inline void c12_wd_tick(int sig) {
    if (wd_what && wd_calls == wd_seen) wd_report("hang", sig);
    wd_seen = wd_calls;
}

extern "C" inline void c12_wd_trap(int sig) {
    if (wd_what) wd_report("trap", sig);
    std::signal(sig, SIG_DFL);  // not inside the code under test: a harness bug, die the usual way
    std::raise(sig);
}

inline bool wd_install() {
    static char altstack[1 << 16];
    stack_t ss;
    ss.ss_sp = altstack;
    ss.ss_size = sizeof altstack;
    ss.ss_flags = 0;
    sigaltstack(&ss, nullptr);
    struct sigaction sa;
    std::memset(&sa, 0, sizeof sa);
    sa.sa_handler = c12_wd_trap;
    sa.sa_flags = SA_ONSTACK | SA_NODEFER;
    sigaction(SIGSEGV, &sa, nullptr);
    sigaction(SIGBUS, &sa, nullptr);
    sigaction(SIGFPE, &sa, nullptr);
    sigaction(SIGILL, &sa, nullptr);
    std::signal(SIGVTALRM, c12_wd_tick);
    struct itimerval it;
    it.it_interval.tv_sec = it.it_value.tv_sec = C12_WD_TICK_S;
    it.it_interval.tv_usec = it.it_value.tv_usec = 0;
    setitimer(ITIMER_VIRTUAL, &it, nullptr);
    return true;
}
static const bool wd_installed = wd_install();

struct WdScope {
    WdScope(const char *what, u64 n) {
        wd_n = n;
        wd_op = nullptr;
        wd_calls = wd_calls + 1;
        wd_what = what;
    }
    WdScope(const char *op, u64 a, u64 b, u64 n) {
        wd_a = a;
        wd_b = b;
        wd_n = n;
        wd_op = op;
        wd_calls = wd_calls + 1;
        wd_what = "mod";
    }
    ~WdScope() { wd_what = nullptr; }
};

// The guarded call used by every prime/factor harness.  The input is laundered through an asm after the
// scope is published and the result is pinned before it is closed, so that the optimiser cannot move the
// (side-effect free, inlinable) computation out of the bracket.
template <class F>
inline auto wd_call(const char *what, u64 n, F f) -> decltype(f(n)) {
    WdScope s(what, n);
    asm volatile("" : "+r"(n) : : "memory");
    auto r = f(n);
    asm volatile("" : : "r"(r) : "memory");
    return r;
}

}  // namespace c12
