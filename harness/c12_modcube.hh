// C12 sub-exploration (3): modular helpers on the cube A x A x M against unsigned __int128.
// Built once plainly (g++) and once with clang -fsanitize=unsigned-integer-overflow in recover mode;
// the report hook below attributes an intermediate wrap to the (op, a, b, n) being evaluated.
// usage: c12_modcube PART NPARTS K
//        c12_modcube single OP A B N      (replay of one case)
#pragma once
#include <csignal>
#include <cstdlib>
#include <algorithm>

#include "au/utility/mod.hh"
#include "c12_oracle.hh"

extern "C" {
volatile unsigned long c12_ubsan_reports = 0;
void __ubsan_on_report(void) { c12_ubsan_reports = c12_ubsan_reports + 1; }
}

namespace c12 {

static const u64 MAXU = ~0ULL;

inline void uniq(std::vector<u64> &v) {
    std::sort(v.begin(), v.end());
    v.erase(std::unique(v.begin(), v.end()), v.end());
}

inline std::vector<u64> moduli(u64 K) {
    std::vector<u64> m;
    for (u64 k = 0; k <= K; ++k) {
        m.push_back(MAXU - k);  // 2^64 - 1 - k
        const int ex[] = {16, 31, 32, 33, 48, 62, 63};
        for (int e : ex) {
            m.push_back((1ULL << e) + k);
            m.push_back((1ULL << e) - k);
        }
    }
    const u64 special[] = {18446744073709551557ULL /*2^64-59*/, 9223372036854775783ULL /*2^63-25*/,
                           2305843009213693951ULL /*2^61-1*/, 4294967311ULL, 4294967291ULL,
                           2147483647ULL, 10785637507345693793ULL, 12297829382473034411ULL /*~2^64*2/3*/,
                           6148914691236517205ULL /*2^64/3*/, 13835058055282163712ULL /*3*2^62*/,
                           4294967296ULL * 4294967295ULL, 4294967295ULL * 4294967295ULL};
    for (u64 s : special)
        for (u64 d = 0; d <= 2; ++d) {
            m.push_back(s + d);  // (all specials are > 2 and < 2^64 - 2)
            m.push_back(s - d);
        }
    for (u64 s = 2; s <= 20; ++s) m.push_back(s);
    uniq(m);
    std::vector<u64> out;
    for (u64 x : m)
        if (x >= 2) out.push_back(x);
    return out;
}

inline std::vector<u64> operands(u64 n) {
    const i128 N = (i128)n, R = (i128)isqrt(n), X = (i128)MAXU;
    const i128 a[] = {0, 1, 2, 3, 5, N - 1, N - 2, N - 3, N / 2 - 1, N / 2, N / 2 + 1, N / 3,
                      N / 3 + 1, R - 1, R, R + 1, 65535, 65536, 65537,
                      ((i128)1 << 31) - 1, (i128)1 << 31, ((i128)1 << 32) - 1, (i128)1 << 32,
                      ((i128)1 << 32) + 1, ((i128)1 << 33) - 1, ((i128)1 << 33) + 1,
                      ((i128)1 << 62) + 1, ((i128)1 << 63) - 1, (i128)1 << 63, ((i128)1 << 63) + 1,
                      X / 3, X / 3 + 1, X / 5, X - 1, X - 2, N - N / 4, N - R};
    std::vector<u64> out;
    for (i128 x : a)
        if (x >= 0 && x < N) out.push_back((u64)x);
    for (int k = 2; k < 64; ++k)
        for (i128 d = -1; d <= 1; ++d) {
            const i128 x = ((i128)1 << k) + d;
            if (x < N) out.push_back((u64)x);
        }
    uniq(out);
    return out;
}

struct CubeStats {
    unsigned long long evals = 0, viol = 0, wraps = 0, mul_overflow_path = 0, mul_fit_path = 0,
                       add_reduced = 0, sub_borrow = 0, half_odd = 0, pow_evals = 0;
    int shown[12] = {0};
};

inline void report(CubeStats &st, int slot, const char *kind, const char *op, u64 a, u64 b, u64 n,
                   u64 got, u64 want) {
    ++st.viol;
    if (st.shown[slot]++ < 6)
        std::printf("V {\"kind\":\"%s\",\"op\":\"%s\",\"a\":\"%s\",\"b\":\"%s\",\"n\":\"%s\","
                    "\"got\":\"%s\",\"want\":\"%s\"}\n",
                    kind, op, u64s(a).c_str(), u64s(b).c_str(), u64s(n).c_str(), u64s(got).c_str(),
                    u64s(want).c_str());
}

// A trap inside a helper (e.g. a division by zero) on operands the statement covers is a violation for those
// operands, not a harness failure: report it in the usual V format and stop this process with a distinct code.
static const char *volatile c12_cur_op = "";
static volatile u64 c12_cur_a = 0, c12_cur_b = 0, c12_cur_n = 0;
extern "C" inline void c12_trap(int sig) {
    std::fflush(stdout);
    std::printf("V {\"kind\":\"mod-value\",\"op\":\"%s\",\"a\":\"%s\",\"b\":\"%s\",\"n\":\"%s\","
                "\"got\":\"trap-signal-%d\",\"want\":\"the exact residue\"}\n",
                c12_cur_op, u64s(c12_cur_a).c_str(), u64s(c12_cur_b).c_str(), u64s(c12_cur_n).c_str(), sig);
    std::fflush(stdout);
    std::_Exit(86);
}
static const bool c12_trap_installed = (std::signal(SIGFPE, c12_trap), true);

#define C12_CALL(slot, opname, expr, wantexpr, A_, B_, N_)                                  \
    do {                                                                                    \
        c12_cur_op = opname; c12_cur_a = (A_); c12_cur_b = (B_); c12_cur_n = (N_);          \
        const unsigned long ub0 = c12_ubsan_reports;                                        \
        const u64 got_ = (expr);                                                            \
        const bool wrapped_ = c12_ubsan_reports != ub0;                                     \
        u64 want_ = (wantexpr);                                                             \
        if (perturbed(opname) && (A_) == 3) want_ ^= 1;                                     \
        ++st.evals;                                                                         \
        if (got_ != want_) report(st, slot, "mod-value", opname, A_, B_, N_, got_, want_);  \
        if (wrapped_) {                                                                     \
            ++st.wraps;                                                                     \
            report(st, slot + 6, "mod-wrap", opname, A_, B_, N_, got_, want_);              \
        }                                                                                   \
    } while (0)

inline int modcube_single(int argc, char **argv) {
    if (argc < 6) return 2;
    const std::string op = argv[2];
    const u64 a = std::strtoull(argv[3], nullptr, 10), b = std::strtoull(argv[4], nullptr, 10),
              n = std::strtoull(argv[5], nullptr, 10);
    CubeStats st;
    if (op == "add_mod")
        C12_CALL(0, "add_mod", au::detail::add_mod(a, b, n), (u64)(((u128)a + b) % n), a, b, n);
    else if (op == "sub_mod")
        C12_CALL(1, "sub_mod", au::detail::sub_mod(a, b, n), (u64)(((u128)a + n - b) % n), a, b, n);
    else if (op == "mul_mod")
        C12_CALL(2, "mul_mod", au::detail::mul_mod(a, b, n), (u64)(((u128)a * b) % n), a, b, n);
    else if (op == "half_mod_odd")
        C12_CALL(3, "half_mod_odd", au::detail::half_mod_odd(a, n),
                 (u64)((((u128)a) + ((a & 1) ? (u128)n : 0)) / 2), a, 0, n);
    else if (op == "pow_mod")
        C12_CALL(4, "pow_mod", au::detail::pow_mod(a, b, n), powmod(a, b, n), a, b, n);
    else
        return 2;
    std::printf("S {\"evals\":%llu,\"viol\":%llu,\"wraps\":%llu}\n", st.evals, st.viol, st.wraps);
    return 0;
}

inline int modcube_main(int argc, char **argv) {
    if (argc >= 2 && std::string(argv[1]) == "single") return modcube_single(argc, argv);
    if (argc < 4) return 2;
    const int part = std::atoi(argv[1]), nparts = std::atoi(argv[2]);
    const u64 K = std::strtoull(argv[3], nullptr, 10);
    const std::vector<u64> M = moduli(K);
    CubeStats st;
#ifdef C12_SANITIZED
    {   // prove that the report hook is live in this build: one deliberate wrap
        const unsigned long ub0 = c12_ubsan_reports;
        volatile u64 x = MAXU;
        x = x + 1;
        std::printf("H {\"hook_ok\":%d}\n", (int)(c12_ubsan_reports == ub0 + 1));
    }
#endif
    unsigned long long nmod = 0;
    for (size_t mi = 0; mi < M.size(); ++mi) {
        if ((int)(mi % (size_t)nparts) != part) continue;
        ++nmod;
        const u64 n = M[mi];
        const std::vector<u64> A = operands(n);
        for (u64 a : A) {
            std::vector<u64> B = A;
            if (a > 0)
                for (i128 d = -2; d <= 2; ++d) {
                    const i128 c1 = (i128)(MAXU / a) + d, c2 = (i128)(n / a) + d;
                    if (c1 >= 0 && c1 < (i128)n) B.push_back((u64)c1);
                    if (c2 >= 0 && c2 < (i128)n) B.push_back((u64)c2);
                }
            uniq(B);
            for (u64 b : B) {
                C12_CALL(0, "add_mod", au::detail::add_mod(a, b, n),
                         (u64)(((u128)a + b) % n), a, b, n);
                C12_CALL(1, "sub_mod", au::detail::sub_mod(a, b, n),
                         (u64)(((u128)a + n - b) % n), a, b, n);
                C12_CALL(2, "mul_mod", au::detail::mul_mod(a, b, n),
                         (u64)(((u128)a * b) % n), a, b, n);
                st.add_reduced += ((u128)a + b >= n);
                st.sub_borrow += (a < b);
                ((u128)a * b > (u128)MAXU) ? ++st.mul_overflow_path : ++st.mul_fit_path;
            }
            if (n & 1) {
                // the unique h < n with 2h == a (mod n)
                const u64 h = (u64)((((u128)a) + ((a & 1) ? (u128)n : 0)) / 2);
                C12_CALL(3, "half_mod_odd", au::detail::half_mod_odd(a, n), h, a, 0, n);
                st.half_odd += (a & 1);
            }
        }
        std::vector<u64> bases = A;
        bases.push_back(n);
        if (n != MAXU) bases.push_back(n + 1);
        bases.push_back(MAXU);
        bases.push_back(MAXU - 1);
        uniq(bases);
        const u64 E[] = {0, 1, 2, 3, 5, 64, 65537, n - 1, n - 2, (n - 1) / 2, n, n / 2 + 1, 1ULL << 63,
                         MAXU, MAXU - 1, (1ULL << 32) + 1};
        for (u64 b : bases)
            for (u64 e : E) {
                u128 r = 1 % n, x = b % n;
                for (u64 ee = e; ee; ee >>= 1) {
                    if (ee & 1) r = (r * x) % n;
                    x = (x * x) % n;
                }
                C12_CALL(4, "pow_mod", au::detail::pow_mod(b, e, n), (u64)r, b, e, n);
                ++st.pow_evals;
            }
    }
    std::printf("S {\"moduli\":%llu,\"moduli_total\":%llu,\"evals\":%llu,\"viol\":%llu,\"wraps\":%llu,"
                "\"mul_overflow_path\":%llu,\"mul_fit_path\":%llu,\"add_reduced\":%llu,"
                "\"sub_borrow\":%llu,\"half_odd\":%llu,\"pow_evals\":%llu}\n",
                nmod, (unsigned long long)M.size(), st.evals, st.viol, st.wraps, st.mul_overflow_path,
                st.mul_fit_path, st.add_reduced, st.sub_borrow, st.half_odd, st.pow_evals);
    return 0;
}

}  // namespace c12
