// C12 sub-exploration (3): modular helpers on the cube A x A x M against unsigned __int128.
// Built once plainly (g++) and once with clang -fsanitize=unsigned-integer-overflow in recover mode;
// the report hook below attributes an intermediate wrap to the (op, a, b, n) being evaluated.
// A second, mul_mod-centred pass runs a structured operand lattice per modulus (see lattice_a / lattice_b):
// fractions of n, k*2^j, and for every a the operands around the boundaries of mul_mod's own chunking
// (b = q*floor(n/a) + r).  Every call is guarded by the watchdog of c12_watchdog.hh.
// usage: c12_modcube PART NPARTS K
//        c12_modcube single OP A B N      (replay of one case)
#pragma once
#include <csignal>
#include <cstdlib>
#include <algorithm>

#include "au/utility/mod.hh"
#include "c12_oracle.hh"
#include "c12_watchdog.hh"

extern "C" {
volatile unsigned long c12_ubsan_reports = 0;
void __ubsan_on_report(void) { c12_ubsan_reports = c12_ubsan_reports + 1; }
}

namespace c12 {

static const u64 MAXU = ~0ULL;

inline void uniq(std::vector<u64> &v) {
    std::sort(v.begin(), v.end());
    v.erase(std::unique(v.begin(), v.end()), v.end());
}

inline std::vector<u64> moduli(u64 K) {
    std::vector<u64> m;
    for (u64 k = 0; k <= K; ++k) {
        m.push_back(MAXU - k);  // 2^64 - 1 - k
        const int ex[] = {16, 31, 32, 33, 48, 62, 63};
        for (int e : ex) {
            m.push_back((1ULL << e) + k);
            m.push_back((1ULL << e) - k);
        }
    }
    const u64 special[] = {18446744073709551557ULL /*2^64-59*/, 9223372036854775783ULL /*2^63-25*/,
                           2305843009213693951ULL /*2^61-1*/, 4294967311ULL, 4294967291ULL,
                           2147483647ULL, 10785637507345693793ULL, 12297829382473034411ULL /*~2^64*2/3*/,
                           6148914691236517205ULL /*2^64/3*/, 13835058055282163712ULL /*3*2^62*/,
                           4294967296ULL * 4294967295ULL, 4294967295ULL * 4294967295ULL};
    for (u64 s : special)
        for (u64 d = 0; d <= 2; ++d) {
            m.push_back(s + d);  // (all specials are > 2 and < 2^64 - 2)
            m.push_back(s - d);
        }
    for (u64 s = 2; s <= 20; ++s) m.push_back(s);
    uniq(m);
    std::vector<u64> out;
    for (u64 x : m)
        if (x >= 2) out.push_back(x);
    return out;
}

inline std::vector<u64> operands(u64 n) {
    const i128 N = (i128)n, R = (i128)isqrt(n), X = (i128)MAXU;
    const i128 a[] = {0, 1, 2, 3, 5, N - 1, N - 2, N - 3, N / 2 - 1, N / 2, N / 2 + 1, N / 3,
                      N / 3 + 1, R - 1, R, R + 1, 65535, 65536, 65537,
                      ((i128)1 << 31) - 1, (i128)1 << 31, ((i128)1 << 32) - 1, (i128)1 << 32,
                      ((i128)1 << 32) + 1, ((i128)1 << 33) - 1, ((i128)1 << 33) + 1,
                      ((i128)1 << 62) + 1, ((i128)1 << 63) - 1, (i128)1 << 63, ((i128)1 << 63) + 1,
                      X / 3, X / 3 + 1, X / 5, X - 1, X - 2, N - N / 4, N - R};
    std::vector<u64> out;
    for (i128 x : a)
        if (x >= 0 && x < N) out.push_back((u64)x);
    for (int k = 2; k < 64; ++k)
        for (i128 d = -1; d <= 1; ++d) {
            const i128 x = ((i128)1 << k) + d;
            if (x < N) out.push_back((u64)x);
        }
    uniq(out);
    return out;
}

// Lattice pass, first operands: the cube operands plus floor(n*i/32)+{-1,0,1} (i = 1..31) and k*2^j
// (k = 3, 5, 7; j = 0, 4, .., 60).
inline std::vector<u64> lattice_a(u64 n, const std::vector<u64> &A) {
    std::vector<u64> out = A;
    for (u64 i = 1; i < 32; ++i)
        for (i128 d = -1; d <= 1; ++d) {
            const i128 x = (i128)(((u128)n * i) >> 5) + d;
            if (x >= 0 && x < (i128)n) out.push_back((u64)x);
        }
    for (u64 k = 3; k <= 7; k += 2)
        for (int j = 0; j <= 60; j += 4) {
            const u128 x = (u128)k << j;
            if (x < (u128)n) out.push_back((u64)x);
        }
    uniq(out);
    return out;
}
// Second operands for a given a >= 1: with cs = floor(n/a) (the chunk size of mul_mod's slow path),
// b = q*cs + r for q in {1,2,3,4,7,8,15,16,17, 2^8, 2^16, 2^24, 2^32, 2^40, 2^48, qmax/3, qmax/2,
// qmax-1, qmax} (qmax = floor((n-1)/cs)) and r in {0..16, cs/2, cs-2, cs-1}; plus floor(n*i/32)+{-1,0,1}.
inline std::vector<u64> lattice_b(u64 n, u64 a) {
    std::vector<u64> out;
    for (u64 i = 1; i < 32; ++i)
        for (i128 d = -1; d <= 1; ++d) {
            const i128 x = (i128)(((u128)n * i) >> 5) + d;
            if (x >= 0 && x < (i128)n) out.push_back((u64)x);
        }
    if (a >= 1) {
        const u64 cs = n / a, qmax = (n - 1) / cs;
        const u64 Q[] = {1, 2, 3, 4, 7, 8, 15, 16, 17, 1ULL << 8, 1ULL << 16, 1ULL << 24, 1ULL << 32,
                         1ULL << 40, 1ULL << 48, qmax / 3, qmax / 2, qmax ? qmax - 1 : 0, qmax};
        for (u64 q : Q) {
            if (q > qmax) continue;
            const u128 base = (u128)q * cs;
            for (u64 r = 0; r <= 19; ++r) {
                const u64 rr = r <= 16 ? r : r == 17 ? cs / 2 : r == 18 ? (cs >= 2 ? cs - 2 : 0) : cs - 1;
                if (rr >= cs) continue;  // keeps b % cs == rr
                const u128 x = base + rr;
                if (x < (u128)n) out.push_back((u64)x);
            }
        }
    }
    uniq(out);
    return out;
}

struct CubeStats {
    unsigned long long evals = 0, viol = 0, wraps = 0, mul_overflow_path = 0, mul_fit_path = 0,
                       add_reduced = 0, sub_borrow = 0, half_odd = 0, pow_evals = 0, lattice_evals = 0,
                       lattice_overflow_path = 0, lattice_overflow_rem_ge8 = 0, lattice_n_above_2_63 = 0;
    int shown[12] = {0};
};

inline void report(CubeStats &st, int slot, const char *kind, const char *op, u64 a, u64 b, u64 n,
                   u64 got, u64 want) {
    ++st.viol;
    if (st.shown[slot]++ < 6)
        std::printf("V {\"kind\":\"%s\",\"op\":\"%s\",\"a\":\"%s\",\"b\":\"%s\",\"n\":\"%s\","
                    "\"got\":\"%s\",\"want\":\"%s\"}\n",
                    kind, op, u64s(a).c_str(), u64s(b).c_str(), u64s(n).c_str(), u64s(got).c_str(),
                    u64s(want).c_str());
}

// A trap inside a helper (e.g. a division by zero) or a call that does not return, on operands the statement
// covers, is a violation for those operands, not a harness failure: c12_watchdog.hh reports it in the usual
// V format (kind mod-value with got = trap-signal-N, or kind mod-hang) and stops this process with code 86.
// The operands are laundered (wa_, wb_, wn_) so that the call cannot be moved out of the watchdog bracket.
#define C12_CALL(slot, opname, expr, wantexpr, A_, B_, N_)                                  \
    do {                                                                                    \
        u64 wa_ = (A_), wb_ = (B_), wn_ = (N_);                                             \
        const unsigned long ub0 = c12_ubsan_reports;                                        \
        u64 got_;                                                                           \
        {                                                                                   \
            WdScope wds_(opname, wa_, wb_, wn_);                                            \
            asm volatile("" : "+r"(wa_), "+r"(wb_), "+r"(wn_) : : "memory");                \
            got_ = (expr);                                                                  \
            asm volatile("" : : "r"(got_) : "memory");                                      \
        }                                                                                   \
        const bool wrapped_ = c12_ubsan_reports != ub0;                                     \
        u64 want_ = (wantexpr);                                                             \
        if (perturbed(opname) && (A_) == 3) want_ ^= 1;                                     \
        ++st.evals;                                                                         \
        if (got_ != want_) report(st, slot, "mod-value", opname, A_, B_, N_, got_, want_);  \
        if (wrapped_) {                                                                     \
            ++st.wraps;                                                                     \
            report(st, slot + 6, "mod-wrap", opname, A_, B_, N_, got_, want_);              \
        }                                                                                   \
    } while (0)

inline int modcube_single(int argc, char **argv) {
    if (argc < 6) return 2;
    const std::string op = argv[2];
    const u64 a = std::strtoull(argv[3], nullptr, 10), b = std::strtoull(argv[4], nullptr, 10),
              n = std::strtoull(argv[5], nullptr, 10);
    CubeStats st;
    if (op == "add_mod")
        C12_CALL(0, "add_mod", au::detail::add_mod(wa_, wb_, wn_), (u64)(((u128)a + b) % n), a, b, n);
    else if (op == "sub_mod")
        C12_CALL(1, "sub_mod", au::detail::sub_mod(wa_, wb_, wn_), (u64)(((u128)a + n - b) % n), a, b, n);
    else if (op == "mul_mod")
        C12_CALL(2, "mul_mod", au::detail::mul_mod(wa_, wb_, wn_), (u64)(((u128)a * b) % n), a, b, n);
    else if (op == "half_mod_odd")
        C12_CALL(3, "half_mod_odd", au::detail::half_mod_odd(wa_, wn_),
                 (u64)((((u128)a) + ((a & 1) ? (u128)n : 0)) / 2), a, 0, n);
    else if (op == "pow_mod")
        C12_CALL(4, "pow_mod", au::detail::pow_mod(wa_, wb_, wn_), powmod(a, b, n), a, b, n);
    else
        return 2;
    std::printf("S {\"evals\":%llu,\"viol\":%llu,\"wraps\":%llu}\n", st.evals, st.viol, st.wraps);
    return 0;
}

inline int modcube_main(int argc, char **argv) {
    if (argc >= 2 && std::string(argv[1]) == "single") return modcube_single(argc, argv);
    if (argc < 4) return 2;
    const int part = std::atoi(argv[1]), nparts = std::atoi(argv[2]);
    const u64 K = std::strtoull(argv[3], nullptr, 10);
    const std::vector<u64> M = moduli(K);
    CubeStats st;
#ifdef C12_SANITIZED
    {   // prove that the report hook is live in this build: one deliberate wrap
        const unsigned long ub0 = c12_ubsan_reports;
        volatile u64 x = MAXU;
        x = x + 1;
        std::printf("H {\"hook_ok\":%d}\n", (int)(c12_ubsan_reports == ub0 + 1));
    }
#endif
    unsigned long long nmod = 0;
    for (size_t mi = 0; mi < M.size(); ++mi) {
        if ((int)(mi % (size_t)nparts) != part) continue;
        ++nmod;
        const u64 n = M[mi];
        const std::vector<u64> A = operands(n);
        for (u64 a : A) {
            std::vector<u64> B = A;
            if (a > 0)
                for (i128 d = -2; d <= 2; ++d) {
                    const i128 c1 = (i128)(MAXU / a) + d, c2 = (i128)(n / a) + d;
                    if (c1 >= 0 && c1 < (i128)n) B.push_back((u64)c1);
                    if (c2 >= 0 && c2 < (i128)n) B.push_back((u64)c2);
                }
            uniq(B);
            for (u64 b : B) {
                C12_CALL(0, "add_mod", au::detail::add_mod(wa_, wb_, wn_),
                         (u64)(((u128)a + b) % n), a, b, n);
                C12_CALL(1, "sub_mod", au::detail::sub_mod(wa_, wb_, wn_),
                         (u64)(((u128)a + n - b) % n), a, b, n);
                C12_CALL(2, "mul_mod", au::detail::mul_mod(wa_, wb_, wn_),
                         (u64)(((u128)a * b) % n), a, b, n);
                st.add_reduced += ((u128)a + b >= n);
                st.sub_borrow += (a < b);
                ((u128)a * b > (u128)MAXU) ? ++st.mul_overflow_path : ++st.mul_fit_path;
            }
            if (n & 1) {
                // the unique h < n with 2h == a (mod n)
                const u64 h = (u64)((((u128)a) + ((a & 1) ? (u128)n : 0)) / 2);
                C12_CALL(3, "half_mod_odd", au::detail::half_mod_odd(wa_, wn_), h, a, 0, n);
                st.half_odd += (a & 1);
            }
        }
        // lattice pass
        for (u64 a : lattice_a(n, A)) {
            if (a == 0) continue;
            const u64 cs = n / a;
            for (u64 b : lattice_b(n, a)) {
                C12_CALL(0, "add_mod", au::detail::add_mod(wa_, wb_, wn_),
                         (u64)(((u128)a + b) % n), a, b, n);
                C12_CALL(1, "sub_mod", au::detail::sub_mod(wa_, wb_, wn_),
                         (u64)(((u128)a + n - b) % n), a, b, n);
                C12_CALL(2, "mul_mod", au::detail::mul_mod(wa_, wb_, wn_),
                         (u64)(((u128)a * b) % n), a, b, n);
                st.lattice_evals += 3;
                if ((u128)a * b > (u128)MAXU) {
                    ++st.lattice_overflow_path;
                    st.lattice_overflow_rem_ge8 += (b % cs >= 8);
                    st.lattice_n_above_2_63 += (n >> 63);
                }
            }
        }
        std::vector<u64> bases = A;
        bases.push_back(n);
        if (n != MAXU) bases.push_back(n + 1);
        bases.push_back(MAXU);
        bases.push_back(MAXU - 1);
        uniq(bases);
        const u64 E[] = {0, 1, 2, 3, 5, 64, 65537, n - 1, n - 2, (n - 1) / 2, n, n / 2 + 1, 1ULL << 63,
                         MAXU, MAXU - 1, (1ULL << 32) + 1};
        for (u64 b : bases)
            for (u64 e : E) {
                u128 r = 1 % n, x = b % n;
                for (u64 ee = e; ee; ee >>= 1) {
                    if (ee & 1) r = (r * x) % n;
                    x = (x * x) % n;
                }
                C12_CALL(4, "pow_mod", au::detail::pow_mod(wa_, wb_, wn_), (u64)r, b, e, n);
                ++st.pow_evals;
            }
    }
    std::printf("S {\"moduli\":%llu,\"moduli_total\":%llu,\"evals\":%llu,\"viol\":%llu,\"wraps\":%llu,"
                "\"mul_overflow_path\":%llu,\"mul_fit_path\":%llu,\"add_reduced\":%llu,"
                "\"sub_borrow\":%llu,\"half_odd\":%llu,\"pow_evals\":%llu,\"lattice_evals\":%llu,"
                "\"lattice_overflow_path\":%llu,\"lattice_overflow_rem_ge8\":%llu,"
                "\"lattice_n_above_2_63\":%llu}\n",
                nmod, (unsigned long long)M.size(), st.evals, st.viol, st.wraps, st.mul_overflow_path,
                st.mul_fit_path, st.add_reduced, st.sub_borrow, st.half_odd, st.pow_evals,
                st.lattice_evals, st.lattice_overflow_path, st.lattice_overflow_rem_ge8,
                st.lattice_n_above_2_63);
    return 0;
}

}  // namespace c12
