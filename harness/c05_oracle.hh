// C05: compositional stage oracle for rep-changing conversions (no Au code in this file).
//
// The documented pipeline of `q.as<T>(unit)` for a Quantity of rep S and conversion factor N/D:
//   stage 1  cast S -> C        (C = common type, taken from an independent table in the generator)
//   stage 2  scale by N/D in C  (integral C: exact 128-bit arithmetic incl. the promoted-type rule,
//                                 harness/sweep.hh::exact_scale; floating C: the value `y` that the
//                                 library computes for the same-rep conversion is taken as given)
//   stage 3  cast C -> T
// Castability of a floating value to an integral type is decided by exact comparisons with powers of
// two (exactly representable in every binary floating type) -- the cast itself is never performed.
#pragma once
#include "c05_fpset.hh"
#include "sweep.hh"

namespace vf5 {

using vf::i128;
using vf::u128;
typedef __float128 q128;

// ---- float -> integral castability (exact) -------------------------------------------------------
// static_cast<T>(y) is defined iff trunc(y) is in [Tmin, Tmax]  <=>  -2^d <= trunc(y) < 2^d (signed,
// d = digits(T)) resp. 0 <= trunc(y) < 2^d (unsigned; trunc(-0.5) = -0 compares equal to 0).
template <typename T, typename F>
inline bool castable(F y) {
    if (!(y == y)) return false;   // NaN
    const F t = std::trunc(y);     // exact; +-inf stays +-inf and fails the comparisons below
    const F hi = std::ldexp(F(1), std::numeric_limits<T>::digits);   // Tmax + 1 = 2^digits, exact
    if (!(t < hi)) return false;
    if (std::is_signed<T>::value) return t >= -hi;
    return t >= F(0);
}
template <typename F>
inline bool finite(F y) { return (y == y) && y != std::numeric_limits<F>::infinity() &&
                                 y != -std::numeric_limits<F>::infinity(); }
template <typename F>
inline bool integral_valued(F y) { return finite(y) && std::trunc(y) == y; }

// decimal string of an integral-valued floating value with |y| < 2^126, else ""
template <typename F>
inline std::string int_of_fp_str(F y) {
    if (!integral_valued(y)) return "";
    const F lim = std::ldexp(F(1), 126);
    if (!(y < lim && y > -lim)) return "";
    const i128 v = static_cast<i128>(y);   // in range of i128: checked above
    return vf::int_str(v);
}

// ---- integral pipeline ---------------------------------------------------------------------------
struct StagesInt {
    bool st1_in;      // x representable in C
    bool prod_in_p;   // x*N representable in promoted(C)
    bool trunc;       // D does not divide x*N
    bool st2_out;     // rational x*N/D strictly outside [Cmin, Cmax]
    bool band;        // ... but trunc(x*N/D) still fits C (don't-care for overflow reporting)
    bool st3_in;      // trunc(x*N/D) representable in T
    bool neg;
    u128 q;           // |trunc(x*N/D)|
    bool all_defined_exact() const { return st1_in && prod_in_p && !trunc && !st2_out && st3_in; }
    bool some_stage_leaves_range() const {
        return !st1_in || !prod_in_p || st2_out || band || !st3_in;
    }
};

template <typename S, typename C, typename T>
inline StagesInt stages_int(S x, std::uint64_t N, std::uint64_t D) {
    StagesInt s{};
    const bool neg = x < 0;
    const u128 ax = neg ? (u128)(-(i128)x) : (u128)x;
    s.st1_in = neg ? ax <= vf::abs_min<C>() : ax <= vf::abs_max<C>();
    if (!s.st1_in) return s;
    const vf::Exact e = vf::exact_scale<C>(static_cast<C>(x), N, D);   // in range: checked above
    s.prod_in_p = e.prod_in_p;
    s.trunc = e.trunc;
    s.st2_out = e.outside_t;
    s.band = e.band;
    s.neg = e.neg;
    s.q = e.q;
    s.st3_in = e.neg ? e.q <= vf::abs_min<T>() : e.q <= vf::abs_max<T>();
    return s;
}

// ---- integral source, floating target: distance of the result from the exact x*N/D in ulps(T) ----
// binary128 holds x (<= 64 bits), x*N (< 2^96) exactly; the quotient is rounded at 113 bits, which is
// negligible against the 24/53/64-bit target precision.
inline double ulps_of(long double diff, long double big, int digits, int min_exponent) {
    int k = 0;
    (void)std::frexp(big, &k);   // big = f * 2^k, f in [0.5, 1)  ->  ulp_T = 2^(k - digits)
    int ue = k - digits;
    if (ue < min_exponent - digits) ue = min_exponent - digits;
    return (double)(diff / std::ldexp(1.0L, ue));
}
template <typename T, typename S>
inline double ulp_error(S x, std::uint64_t N, std::uint64_t D, T r) {
    typedef std::numeric_limits<T> L;
    const bool neg = x < 0;
    const u128 ax = neg ? (u128)(-(i128)x) : (u128)x;
    const u128 prod = ax * (u128)N;
    const long double ar = r < 0 ? -(long double)r : (long double)r;
    if (L::digits <= 53 && prod < ((u128)1 << 64)) {
        // fast route: |x|*N is exact in the 64-bit significand of long double, one rounding at 2^-64
        // in the quotient (2^-11 ulp of double) -- far below the 2/3-ulp thresholds
        long double e = (long double)(std::uint64_t)prod / (long double)D;
        const long double big = e > ar ? e : ar;
        if (neg) e = -e;
        long double diff = (long double)r - e;
        if (diff < 0) diff = -diff;
        if (diff == 0) return 0.0;
        return ulps_of(diff, big, L::digits, L::min_exponent);
    }
    const q128 ea = (q128)prod / (q128)(u128)D;
    const q128 e = neg ? -ea : ea;
    q128 diff = (q128)(long double)r - e;   // widening, exact
    if (diff < 0) diff = -diff;
    if (diff == 0) return 0.0;
    long double big = (long double)ea;
    if (ar > big) big = ar;
    int k = 0;
    (void)std::frexp(big, &k);
    int ue = k - L::digits;
    if (ue < L::min_exponent - L::digits) ue = L::min_exponent - L::digits;
    return (double)(long double)(diff / (q128)std::ldexp(1.0L, ue));
}

// ---- integral source, floating target: is |x|*N/D clearly inside the range of T? ----------------------
// (factors up to 2^64 x 64-bit sources reach 2^128 > FLT_MAX).  "Clearly": below max(T)*(1 - 8 eps); the
// cast of x to T and the floating multiplication each round, so values closer to max(T) are a don't-care.
template <typename T, typename S>
inline bool int_to_fp_clearly_in_range(S x, std::uint64_t N, std::uint64_t D) {
    const bool neg = x < 0;
    const u128 ax = neg ? (u128)(-(i128)x) : (u128)x;
    const q128 e = (q128)(ax * (u128)N) / (q128)(u128)D;   // |x| <= 2^64, N < 2^64: the product fits u128
    const q128 lim = (q128)std::numeric_limits<T>::max() * ((q128)1 - (q128)8 * (q128)std::numeric_limits<T>::epsilon());
    return e < lim;
}

// ---- floating common type: distance of the library's scaled value y from the exact x*N/D, in ulps(C) --
// x has at most 64 significant bits, N < 2^64: the binary128 product is rounded at 2^-113 relative
// (2^-49 ulp of long double), as is the quotient.  Returns -1 when not applicable (non-finite x or y,
// or an exact value beyond the range of C: range questions are judged elsewhere).
template <typename C>
inline double fp_scale_ulps(C x, std::uint64_t N, std::uint64_t D, C y) {
    typedef std::numeric_limits<C> L;
    if (!finite(x) || !finite(y)) return -1.0;
    const q128 e = (q128)(long double)x * (q128)(u128)N / (q128)(u128)D;
    const q128 ea = e < 0 ? -e : e;
    if (ea > (q128)L::max()) return -1.0;
    q128 diff = (q128)(long double)y - e;
    if (diff < 0) diff = -diff;
    if (diff == 0) return 0.0;
    long double big = (long double)ea;   // rounding here moves the binade by at most one ulp of long double
    const long double ay = y < 0 ? -(long double)y : (long double)y;
    if (ay > big) big = ay;
    int k = 0;
    (void)std::frexp(big, &k);
    int ue = k - L::digits;
    if (ue < L::min_exponent - L::digits) ue = L::min_exponent - L::digits;
    const q128 u = diff / (q128)std::ldexp(1.0L, ue);
    return u > (q128)1e300 ? 1e300 : (double)(long double)u;
}

}  // namespace vf5
