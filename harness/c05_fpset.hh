// C05: bit-level helpers and the structured, fully enumerated floating-point value alphabet.
// No Au code.  x86-64: float = binary32, double = binary64, long double = x87 80-bit extended.
#pragma once
#include <algorithm>
#include <cmath>
#include <cstdint>
#include <cstdio>
#include <cstring>
#include <limits>
#include <string>
#include <vector>

namespace vf5 {

struct Bits {
    std::uint64_t lo;   // float: 32 bits, double: 64 bits, long double: the 64-bit significand
    std::uint16_t hi;   // long double only: sign + 15-bit exponent
};
inline bool operator<(const Bits &a, const Bits &b) { return a.hi != b.hi ? a.hi < b.hi : a.lo < b.lo; }
inline bool operator==(const Bits &a, const Bits &b) { return a.hi == b.hi && a.lo == b.lo; }

template <typename F> struct FpInfo;
template <> struct FpInfo<float> {
    static constexpr int nbytes = 4;
    static const char *name() { return "float"; }
};
template <> struct FpInfo<double> {
    static constexpr int nbytes = 8;
    static const char *name() { return "double"; }
};
template <> struct FpInfo<long double> {
    static constexpr int nbytes = 10;
    static const char *name() { return "long double"; }
};

template <typename F>
inline Bits to_bits(F v) {
    Bits b{0, 0};
    unsigned char buf[16] = {0};
    std::memcpy(buf, &v, FpInfo<F>::nbytes);
    std::memcpy(&b.lo, buf, FpInfo<F>::nbytes < 8 ? FpInfo<F>::nbytes : 8);
    if (FpInfo<F>::nbytes == 10) std::memcpy(&b.hi, buf + 8, 2);
    return b;
}
template <typename F>
inline F from_bits(Bits b) {
    unsigned char buf[16] = {0};
    std::memcpy(buf, &b.lo, 8);
    std::memcpy(buf + 8, &b.hi, 2);
    F v = F(0);
    std::memcpy(&v, buf, FpInfo<F>::nbytes);
    return v;
}
template <typename F>
inline std::string bits_hex(F v) {
    const Bits b = to_bits(v);
    char s[40];
    if (FpInfo<F>::nbytes == 4) std::snprintf(s, sizeof s, "%08llx", (unsigned long long)b.lo);
    else if (FpInfo<F>::nbytes == 8) std::snprintf(s, sizeof s, "%016llx", (unsigned long long)b.lo);
    else std::snprintf(s, sizeof s, "%04x%016llx", (unsigned)b.hi, (unsigned long long)b.lo);
    return s;
}
inline Bits parse_bits(const char *hex, int nbytes) {
    Bits b{0, 0};
    std::string h(hex);
    if (nbytes == 10) {
        b.hi = (std::uint16_t)std::strtoul(h.substr(0, 4).c_str(), nullptr, 16);
        b.lo = std::strtoull(h.substr(4).c_str(), nullptr, 16);
    } else {
        b.lo = std::strtoull(h.c_str(), nullptr, 16);
    }
    return b;
}
template <typename F>
inline std::string fp_str(F v) {
    // one spelling per value: glibc's %a of the double when the value is a double (0x1p+31), else %La
    char s[80];
    const long double w = (long double)v;   // widening is exact
    const long double dmax = (long double)std::numeric_limits<double>::max();
    if (w != w) std::snprintf(s, sizeof s, "%snan", std::signbit(v) ? "-" : "");
    else if (w > dmax || w < -dmax) std::snprintf(s, sizeof s, "%La", w);   // incl. +-inf
    else if ((long double)(double)w == w) std::snprintf(s, sizeof s, "%a", (double)w);   // in range
    else std::snprintf(s, sizeof s, "%La", w);
    return s;
}

// ---- alphabet --------------------------------------------------------------------------------

template <typename F>
inline void add(std::vector<Bits> &out, F v) { out.push_back(to_bits(v)); }

// c and its w nextafter-neighbours on both sides
template <typename F>
inline void add_window(std::vector<Bits> &out, F c, int w) {
    add(out, c);
    F up = c, dn = c;
    const F inf = std::numeric_limits<F>::infinity();
    for (int i = 0; i < w; ++i) {
        up = std::nextafter(up, inf);
        dn = std::nextafter(dn, -inf);
        add(out, up);
        add(out, dn);
    }
}

// structured mantissa patterns below the implicit/explicit leading one: `fb` fraction bits
inline std::vector<std::uint64_t> mant_patterns(int fb, bool full, bool full4) {
    std::vector<std::uint64_t> p;
    const std::uint64_t all = fb == 64 ? ~0ull : ((1ull << fb) - 1);
    p.push_back(0); p.push_back(1); p.push_back(all); p.push_back(all - 1);
    p.push_back(1ull << (fb - 1));               // x.5 of the binade
    p.push_back((1ull << (fb - 1)) | 1);
    p.push_back(all >> 1);
    p.push_back(0x5555555555555555ull & all);
    if (full) {
        for (int i = 0; i < fb; ++i) {
            p.push_back(1ull << i);                        // single bit
            p.push_back(all & ~((1ull << i) - 1));          // ones prefix
            if (!full4) continue;
            p.push_back((1ull << i) - 1);                   // ones suffix
            p.push_back(all ^ (1ull << i));                 // single hole
        }
    }
    std::sort(p.begin(), p.end());
    p.erase(std::unique(p.begin(), p.end()), p.end());
    return p;
}

struct Level {
    int wpow;        // nextafter neighbours around every power of two with |exponent| <= far_exp
    int wpow_far;    // ... and around the remaining powers of two (all of them are always included)
    int far_exp;
    int wlim;        // neighbours around every (pre-image of a) limit
    int full_exp;    // |exponent| up to which the full mantissa pattern set is used
    int small_exp;   // |exponent| up to which the small mantissa pattern set is used
    bool full4;      // full set: 4 patterns per bit position (else 2)
};
inline Level level(int tier) {
    return tier == 0 ? Level{2, 0, 1100, 64, 100, 1100, false}
                     : Level{8, 2, 1100, 256, 400, 1 << 20, true};
}

// value set that depends only on the type (and tier): specials, powers of two, exponent x mantissa
// patterns, an eighths grid, integer/half-integer neighbourhoods of the integral limits.
template <typename F>
inline std::vector<Bits> base_set(int tier) {
    typedef std::numeric_limits<F> L;
    const Level lv = level(tier);
    std::vector<Bits> out;
    const F inf = L::infinity();
    // specials
    for (int s = 0; s < 2; ++s) {
        const F sg = s ? F(-1) : F(1);
        add(out, sg * F(0));
        add(out, sg * inf);
        add(out, std::copysign(L::quiet_NaN(), sg));
        add_window(out, sg * L::denorm_min(), 4);
        add_window(out, sg * L::min(), 8);        // largest denormals / smallest normals
        add_window(out, sg * L::max(), 8);
        add_window(out, sg * F(1), 8);
    }
    {   // NaNs with distinct payloads (quiet and signalling), both signs
        Bits q = to_bits(L::quiet_NaN());
        for (int s = 0; s < 2; ++s) {
            for (std::uint64_t pay : {1ull, 2ull, 0x1234ull, 0x3fffffull}) {
                Bits b = q;
                b.lo |= pay;
                if (s) { if (FpInfo<F>::nbytes == 10) b.hi |= 0x8000; else b.lo |= 1ull << (FpInfo<F>::nbytes * 8 - 1); }
                out.push_back(b);
                Bits sn = b;   // clear the quiet bit -> signalling (payload keeps it a NaN)
                const int qbit = FpInfo<F>::nbytes == 4 ? 22 : FpInfo<F>::nbytes == 8 ? 51 : 62;
                sn.lo &= ~(1ull << qbit);
                out.push_back(sn);
            }
        }
    }
    // powers of two over the whole exponent range (denormal ones included)
    const int emin = L::min_exponent - L::digits;   // denorm_min = 2^emin
    const int emax = L::max_exponent - 1;
    for (int e = emin; e <= emax; ++e) {
        const F p = std::ldexp(F(1), e);
        const int w = (e >= -lv.far_exp && e <= lv.far_exp) ? lv.wpow : lv.wpow_far;
        add_window(out, p, w);
        add_window(out, -p, w);
    }
    // exponent x mantissa patterns
    const int fb = L::digits - 1;
    const std::vector<std::uint64_t> small = mant_patterns(fb, false, false),
                                     full = mant_patterns(fb, true, lv.full4);
    for (int e = L::min_exponent - 1; e <= emax; ++e) {
        const bool f = (e >= -lv.full_exp && e <= lv.full_exp) || FpInfo<F>::nbytes == 4;
        if (!f && !(e >= -lv.small_exp && e <= lv.small_exp)) continue;
        const std::vector<std::uint64_t> &pat = f ? full : small;
        for (std::uint64_t m : pat) {
            // (2^fb + m) * 2^(e - fb): exact, 2^fb + m < 2^digits
            const F mant = static_cast<F>((static_cast<unsigned __int128>(1) << fb) + m);
            const F v = std::ldexp(mant, e - fb);
            add(out, v);
            add(out, -v);
        }
    }
    // eighths grid around zero: covers the 8-bit limits with fractional parts
    for (int k = -4200; k <= 4200; ++k) add(out, static_cast<F>(k) / F(8));
    // integer and half-integer neighbourhoods of every integral limit (where representable)
    for (int b : {7, 8, 15, 16, 24, 31, 32, 53, 63, 64}) {
        const F p = std::ldexp(F(1), b);
        for (int j = -16; j <= 16; ++j) {
            for (int s = 0; s < 2; ++s) {
                const F sg = s ? F(-1) : F(1);
                add(out, sg * (p + static_cast<F>(j)));
                add(out, sg * (p + static_cast<F>(j) + F(0.5)));
                add(out, sg * (p + static_cast<F>(j) + F(0.25)));
            }
        }
    }
    std::sort(out.begin(), out.end());
    out.erase(std::unique(out.begin(), out.end()), out.end());
    return out;
}

// instance-specific part: nextafter windows around the pre-image L*D/N of every limit L, and (round 3)
// inputs whose scaled value y = x*N/D is integer-valued right next to L: x = k*D for the integers k
// around L/N (y = k*N: the last value that fits / the first that does not, for every factor and every
// floating source, not only where 64 ulps of the source reach an integer), plus the integers around
// the pre-image itself.
template <typename F>
inline std::vector<Bits> inst_set(std::uint64_t N, std::uint64_t D, int tier) {
    typedef unsigned __int128 u128;
    const Level lv = level(tier);
    std::vector<Bits> out;
    std::vector<long double> lims;
    const int limbits[] = {7, 8, 15, 16, 24, 31, 32, 53, 63, 64};
    for (int b : limbits) lims.push_back(std::ldexp(1.0L, b));
    lims.push_back((long double)std::numeric_limits<float>::max());
    lims.push_back((long double)std::numeric_limits<double>::max());
    lims.push_back(std::numeric_limits<long double>::max());
    lims.push_back(1.0L);
    const long double fmax = (long double)std::numeric_limits<F>::max();
    for (long double l : lims) {
        // l * D may exceed LDBL_MAX for l = LDBL_MAX: divide first when the factor is below one
        const long double pre = N >= D ? l / ((long double)N / (long double)D) : (l / (long double)N) * (long double)D;
        if (!(pre <= fmax)) continue;
        const F c = static_cast<F>(pre);   // in range: checked above
        add_window(out, c, lv.wlim);
        add_window(out, -c, lv.wlim);
    }
    for (int b : limbits) {
        const u128 L = (u128)1 << b;
        const u128 k0 = L / N;
        for (int j = -3; j <= 3; ++j) {
            if (j < 0 && k0 < (u128)(-j)) continue;
            const u128 k = k0 + j;
            // k * D as a floating value (k < 2^65, D < 2^64: the product of the two roundings is exact
            // enough to land on or next to the multiple; the oracle judges the actual x)
            const long double xv = (long double)k * (long double)D;
            if (!(xv <= fmax)) continue;
            add_window(out, static_cast<F>(xv), 1);
            add_window(out, -static_cast<F>(xv), 1);
        }
        const long double pre = std::ldexp(1.0L, b) * (long double)D / (long double)N;
        if (pre <= fmax && pre < std::ldexp(1.0L, 100)) {
            const long double fl = std::floor(pre);
            for (int j = -4; j <= 4; ++j) {
                add(out, static_cast<F>(fl + j));
                add(out, -static_cast<F>(fl + j));
            }
        }
    }
    std::sort(out.begin(), out.end());
    out.erase(std::unique(out.begin(), out.end()), out.end());
    return out;
}

}  // namespace vf5
