// C03/C04 round-3 additions (no Au code in this file): promotion table entries for the integral
// reps that are not fixed-width aliases, and the structured value lattice for 32/64-bit reps.
#pragma once
#include <algorithm>
#include "sweep.hh"

namespace vf {
// `char` (signed on x86-64) and `char16_t` promote to int; `wchar_t` (int-sized, signed), `char32_t`
// (unsigned-int-sized), `long long`, `unsigned long long` are their own promoted type: the primary
// template of sweep.hh::Promo already says so.
template <>
struct Promo<char> {
    typedef int type;
};
template <>
struct Promo<char16_t> {
    typedef int type;
};
static_assert(std::is_signed<char>::value, "x86-64: plain char is signed");
static_assert(sizeof(wchar_t) == 4 && std::is_signed<wchar_t>::value, "x86-64 Linux: wchar_t is a signed 32-bit type");
}  // namespace vf

namespace vf3 {
using vf::i128;
using vf::u128;

template <typename T>
inline bool fits(i128 v) {
    return v >= (i128)std::numeric_limits<T>::lowest() && v <= (i128)std::numeric_limits<T>::max();
}

// Structured, fully enumerated lattice over the whole range of a 32/64-bit rep T (values away from
// every breakpoint window):
//   A  s*(k*2^j + r)      j = 0..bits-1, k odd in 1..15, r in -2..2
//   B  s*(a*2^(bits/2)+b) a, b from a 14-element half-word alphabet (catches a narrowing to the low
//                         or high half that only bites for particular half-word patterns)
//   C  s*(k*10^j + r)     k = 1..9, r in -1..1
//   D  s*(2^j - 2^i)      runs of ones, 0 <= i < j <= bits
// s = +1, and -1 for signed T.  Sorted, de-duplicated, restricted to the range of T.
template <typename T>
inline std::vector<T> make_lattice() {
    const int bits = (int)sizeof(T) * 8;
    const int h = bits / 2;
    std::vector<i128> raw;
    for (int j = 0; j < bits; ++j)
        for (int k = 1; k <= 15; k += 2)
            for (int r = -2; r <= 2; ++r) raw.push_back(((i128)k << j) + r);
    const i128 H = (i128)1 << h;
    const i128 half[] = {0, 1, 2, 3, H / 2 - 1, H / 2, H / 2 + 1, H - 2, H - 1,
                         (i128)(0x5555555555555555ull & (unsigned long long)(H - 1)),
                         (i128)(0xAAAAAAAAAAAAAAAAull & (unsigned long long)(H - 1)),
                         (i128)(0x123456789ABCDEF1ull & (unsigned long long)(H - 1)),
                         (i128)(0x0F0F0F0F0F0F0F0Full & (unsigned long long)(H - 1)),
                         (i128)(0xFEDCBA9876543210ull & (unsigned long long)(H - 1))};
    for (i128 a : half)
        for (i128 b : half) raw.push_back(a * H + b);
    i128 p10 = 1;
    for (int j = 0; j < 20; ++j, p10 *= 10)
        for (int k = 1; k <= 9; ++k)
            for (int r = -1; r <= 1; ++r) raw.push_back(p10 * k + r);
    for (int j = 1; j <= bits; ++j)
        for (int i = 0; i < j; ++i) raw.push_back(((i128)1 << j) - ((i128)1 << i));
    std::vector<T> out;
    for (i128 v : raw) {
        if (fits<T>(v)) out.push_back(static_cast<T>(v));
        if (std::is_signed<T>::value && fits<T>(-v)) out.push_back(static_cast<T>(-v));
    }
    std::sort(out.begin(), out.end());
    out.erase(std::unique(out.begin(), out.end()), out.end());
    return out;
}
template <typename T>
inline const std::vector<T> &lattice() {
    static const std::vector<T> l = make_lattice<T>();
    return l;
}
}  // namespace vf3
